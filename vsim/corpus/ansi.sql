SELECT
    a,
    b
FROM tbl
WHERE a > 1
-- ----
SELECT a FROM tbl
-- ----
SELECT
    t.id,
    t.name,
    u.email
FROM tbl AS t
INNER JOIN users AS u
    ON t.id = u.id
WHERE t.id > 10
ORDER BY t.id
-- ----
SELECT
    dept,
    COUNT(*) AS n
FROM emp
GROUP BY dept
HAVING COUNT(*) > 1
-- ----
WITH cte AS (
    SELECT
        a,
        b
    FROM tbl
)

SELECT
    a,
    b
FROM cte
-- ----
INSERT INTO tbl (a, b)
VALUES (1, 'x'), (2, 'y')
-- ----
UPDATE tbl
SET a = 1
WHERE b = 'z'
-- ----
DELETE FROM tbl
WHERE a < 0
-- ----
CREATE TABLE tbl (
    id INT NOT NULL,
    name VARCHAR(20),
    created_at TIMESTAMP
)
-- ----
SELECT
    a,
    CASE
        WHEN b > 0 THEN 'pos'
        WHEN b < 0 THEN 'neg'
        ELSE 'zero'
    END AS sign
FROM tbl
-- ----
SELECT
    a,
    SUM(b) OVER (PARTITION BY c ORDER BY d) AS running
FROM tbl
-- ----
SELECT a
FROM tbl
WHERE
    a IN (1, 2, 3)
    AND b IS NOT NULL
    AND c LIKE 'x%'
-- ----
SELECT a FROM t1
UNION ALL
SELECT a FROM t2
-- ----
SELECT
    t1.a,
    t2.b
FROM t1
LEFT JOIN t2
    ON t1.k = t2.k
WHERE t2.b IS NULL
-- ----
SELECT DISTINCT a
FROM tbl
ORDER BY a DESC
LIMIT 10
-- ----
SELECT
    a, -- first column
    b  -- second column
FROM tbl
-- ----
/* header comment */
SELECT 'a string with  two spaces' AS s
FROM tbl
-- ----
SELECT
    COALESCE(a, 0) AS a,
    CAST(b AS INT) AS b
FROM tbl
-- ----
SELECT a
FROM (
    SELECT a
    FROM tbl
    WHERE a > 0
) AS sub
-- ----
SELECT
    a,
    b
FROM tbl
WHERE EXISTS (
    SELECT 1
    FROM other
    WHERE other.a = tbl.a
)
-- ----
CREATE VIEW v AS
SELECT
    a,
    b
FROM tbl
-- ----
DROP TABLE IF EXISTS tbl
-- ----
SELECT
    a,
    b
FROM tbl;

SELECT c
FROM tbl2;
-- ----
SELECT
    a + b AS total,
    a * 2 AS doubled
FROM tbl
WHERE a BETWEEN 1 AND 10
-- ----
SELECT
    tbl.a,
    tbl.b
FROM tbl
WHERE tbl.a > 1
-- ----
SELECT
    o.id,
    c.name
FROM orders AS o
INNER JOIN customers AS c
    ON o.customer_id = c.id
WHERE c.name IS NOT NULL
-- ----
SELECT
    tbl.a,
    b
FROM tbl
-- ----
SELECT
    a,
    foo.b
FROM tbl
-- ----
SELECT
    t.payload.user_id,
    t.payload.country
FROM t
