"""Node-side operations: drive sqlfluff's public surface, return canonical results.

Everything here runs inside a node (after the seams are installed). Results
are plain JSON-able values; the harness compares / digests them.
"""

from __future__ import annotations

import io
import os
import pickle
import sys
from multiprocessing.reduction import ForkingPickler
from typing import Any, Optional

from vsim.seams import SimCrash, real_read

# --------------------------------------------------------------------------
# monitors (harness-side observation, no behaviour change)
# --------------------------------------------------------------------------

_MON: dict[str, Any] = {"installed": False, "node": None, "files": [], "persist": [], "lex": [], "parse": []}


def _violation_row(v: Any) -> list:
    try:
        fixes = len(getattr(v, "fixes", []) or [])
    except Exception:
        fixes = -1
    return [
        v.rule_code(),
        v.line_no,
        v.line_pos,
        v.desc(),
        type(v).__name__,
        bool(getattr(v, "fatal", False)),
        bool(getattr(v, "ignore", False)),
        bool(getattr(v, "warning", False)),
        fixes,
    ]


def _patches(lf: Any) -> Optional[list]:
    """Source patches the fix would apply (same computation persist uses)."""
    if lf.tree is None or lf.templated_file is None:
        return None
    try:
        from sqlfluff.core.linter.patch import generate_source_patches

        out = []
        sp = lf.source_patches
        if sp is None:
            sp = generate_source_patches(lf.tree, lf.templated_file)
        for p in sp:
            out.append([p.source_slice.start, p.source_slice.stop, p.fixed_raw, p.patch_category])
        return out
    except Exception as e:  # pragma: no cover
        return [["ERR", repr(e)]]


def install_monitors(node: Any) -> None:
    if _MON["installed"]:
        _MON["node"] = node
        return
    _MON["installed"] = True
    _MON["node"] = node
    from sqlfluff.core.linter.linted_dir import LintedDir
    from sqlfluff.core.linter.linted_file import TMP_PRS_ERROR_TYPES, LintedFile
    from sqlfluff.core.parser import Lexer
    from sqlfluff.core.parser.parser import Parser

    orig_add = LintedDir.add

    def add(self: Any, file: Any) -> None:
        try:
            _MON["files"].append(
                {
                    "path": file.path,
                    "violations": sorted(_violation_row(v) for v in file.violations),
                    # the order in which the file reports them (what a caller of get_violations() sees)
                    "reported_order": [[v.rule_code(), v.line_no, v.line_pos] for v in file.get_violations()],
                    "tmp_prs_unfiltered": file.num_violations(
                        types=TMP_PRS_ERROR_TYPES, filter_ignore=False, filter_warning=False
                    ),
                    "fixable": file.num_violations(fixable=True, filter_warning=False),
                    "encoding": file.encoding,
                    "has_tree": file.tree is not None,
                }
            )
        except SimCrash:
            raise
        except Exception as e:  # pragma: no cover
            _MON["files"].append({"path": getattr(file, "path", "?"), "monitor_error": repr(e)})
        return orig_add(self, file)

    LintedDir.add = add  # type: ignore

    orig_persist = LintedFile.persist_tree

    def persist_tree(self: Any, suffix: str = "", formatter: Any = None) -> bool:
        n = _MON["node"]
        at = n.disk.opcount
        rec: dict[str, Any] = {"path": self.path, "at": at, "suffix": suffix}
        try:
            rec["patches"] = _patches(self) if n.knobs.get("record_patches") else None
            if n.knobs.get("record_patches"):
                rec["fixable"] = self.num_violations(fixable=True, filter_warning=False)
                if rec["fixable"]:
                    fs, ok = self.fix_string()
                    rec["fix_string"] = fs
                    rec["source_str"] = self.templated_file.source_str if self.templated_file else None
        except SimCrash:
            raise
        except Exception as e:  # pragma: no cover
            rec["monitor_error"] = repr(e)
        inflight = 0
        try:
            inflight = n.poolsim.stats.get("_inflight_now", 0)
        except Exception:
            pass
        rec["inflight"] = inflight
        _MON["persist"].append(rec)
        n.events.append(["persist", self.path, at])
        r = orig_persist(self, suffix=suffix, formatter=formatter)
        rec["returned"] = r
        rec["ops"] = n.disk.opcount - at
        return r

    LintedFile.persist_tree = persist_tree  # type: ignore

    from sqlfluff.core.linter.linter import Linter

    orig_lfp = Linter.lint_fix_parsed.__func__

    def lint_fix_parsed(cls: Any, tree: Any, config: Any, rule_pack: Any, fix: bool = False, fname: Any = None,
                        templated_file: Any = None, formatter: Any = None):
        n = _MON["node"]
        n0 = len(n.logcap.records)
        r = orig_lfp(cls, tree, config, rule_pack, fix, fname, templated_file, formatter)
        if any(rec[2].startswith("Loop limit on fixes reached") for rec in n.logcap.records[n0:]):
            n.events.append(["looplimit", n.name, fname])
        return r

    Linter.lint_fix_parsed = classmethod(lint_fix_parsed)  # type: ignore

    orig_lr = Linter.lint_rendered.__func__

    def lint_rendered(cls: Any, rendered: Any, rule_pack: Any, fix: bool = False, formatter: Any = None):
        n = _MON["node"]
        if n.knobs.get("cfg_probe"):
            try:
                n.events.append(["cfgobs", n.name, rendered.fname, probe_config(rendered.config)])
            except SimCrash:
                raise
            except Exception as e:  # pragma: no cover
                n.events.append(["cfgobs", n.name, rendered.fname, {"error": repr(e)}])
        return orig_lr(cls, rendered, rule_pack, fix, formatter)

    Linter.lint_rendered = classmethod(lint_rendered)  # type: ignore

    orig_lex = Lexer.lex

    def lex(self: Any, raw: Any):
        fname = getattr(raw, "fname", None)
        _MON["lex"].append(fname)
        n = _MON["node"]
        n.events.append(["lex", n.name, fname])
        return orig_lex(self, raw)

    Lexer.lex = lex  # type: ignore

    orig_parse = Parser.parse

    def parse(self: Any, segments: Any, fname: Any = None, parse_statistics: bool = False):
        _MON["parse"].append(fname)
        n = _MON["node"]
        n.events.append(["parse", n.name, fname])
        return orig_parse(self, segments, fname=fname, parse_statistics=parse_statistics)

    Parser.parse = parse  # type: ignore


def _mon_reset() -> None:
    for k in ("files", "persist", "lex", "parse"):
        _MON[k] = []


def _mon_take() -> dict:
    out = {k: _MON[k] for k in ("files", "persist", "lex", "parse")}
    _mon_reset()
    return out


# --------------------------------------------------------------------------
# helpers
# --------------------------------------------------------------------------


def _exc_row(e: BaseException) -> list:
    row = [type(e).__name__, str(e)]
    if isinstance(e, OSError):
        row.append(e.errno)
    return row


def _mk_linter(node: Any, overrides: Optional[dict], extra_config: Optional[str], **lk: Any):
    from sqlfluff.core import FluffConfig, Linter

    cfg = FluffConfig.from_root(
        extra_config_path=extra_config,
        overrides=dict(overrides) if overrides else None,
    )
    return Linter(config=cfg, **lk)


def _canon_records(records: list) -> list:
    out = []
    for r in records:
        out.append(
            {
                "filepath": r["filepath"],
                "violations": r["violations"],
                "statistics": r.get("statistics"),
            }
        )
    return out


_READ_CLASSES = ("open_r", "stat", "listdir", "scandir")


def _plan_apply(node: Any, plan: Optional[list]) -> None:
    if plan is not None:
        node.disk.plan = [dict(p) for p in plan]
        if any(p.get("cls") in _READ_CLASSES for p in plan) and not node.disk.journal_reads:
            # read-side faults only fire on journalled reads: switch that on for this op
            node.disk.journal_reads = True
            node._jr_restore = True


def _plan_clear(node: Any) -> None:
    node.disk.plan = []
    if getattr(node, "_jr_restore", False):
        node.disk.journal_reads = False
        node._jr_restore = False


# --------------------------------------------------------------------------
# ops
# --------------------------------------------------------------------------


def op_ping(node: Any) -> dict:
    import sqlfluff

    return {
        "pid": os.getpid(),
        "hashseed": os.environ.get("PYTHONHASHSEED"),
        "cwd": os.getcwd(),
        "sqlfluff": os.path.dirname(sqlfluff.__file__),
        "loaded_dialects": sorted(m for m in sys.modules if m.startswith("sqlfluff.dialects.dialect_")),
    }


def op_env(node: Any, kind: str, **a: Any) -> dict:
    if kind == "chdir":
        os.chdir(os.path.join(node.root, a["cwd"]))
    elif kind == "evict":
        from sqlfluff.core.config import file as _f
        from sqlfluff.core.config import loader as _l

        n = 0
        for mod in (_f, _l):
            for name in dir(mod):
                fn = getattr(mod, name)
                if hasattr(fn, "cache_clear") and callable(fn.cache_clear):
                    fn.cache_clear()
                    n += 1
        node.disk.fired["evict"] += 1
        return {"cleared": n}
    elif kind == "clock":
        node.clock.jump(float(a["by"]))
        node.disk.fired["clock"] += 1
    elif kind == "listing":
        node.disk.listing = a["mode"]
    elif kind == "plan":
        node.disk.plan = [dict(p) for p in a["plan"]]
    elif kind == "pool":
        for k in ("backend", "lookahead", "dequeue"):
            if k in a:
                setattr(node.poolsim, k, a[k])
    else:
        raise ValueError(kind)
    return {"ok": True}


def op_lint_paths(
    node: Any,
    paths: list,
    fix: bool = False,
    apply_fixes: bool = False,
    processes: Optional[int] = None,
    fixed_file_suffix: str = "",
    fix_even_unparsable: bool = False,
    overrides: Optional[dict] = None,
    extra_config: Optional[str] = None,
    ignore_files: bool = True,
    retain_files: bool = True,
    plan: Optional[list] = None,
    task_exc: Optional[list] = None,
    linter_handle: Optional[str] = None,
    export_shadow: bool = False,
) -> dict:
    install_monitors(node)
    _mon_reset()
    _plan_apply(node, plan)
    out: dict[str, Any] = {}
    restore = None
    if task_exc:
        restore = _install_task_exc(set(task_exc))
        node.knobs["worker_task_exc"] = list(task_exc)
    try:
        try:
            if linter_handle and linter_handle in node.handles:
                linter = node.handles[linter_handle]
            else:
                linter = _mk_linter(node, overrides, extra_config)
                if linter_handle:
                    node.handles[linter_handle] = linter
            result = linter.lint_paths(
                tuple(paths),
                fix=fix,
                apply_fixes=apply_fixes,
                processes=processes,
                fixed_file_suffix=fixed_file_suffix,
                fix_even_unparsable=fix_even_unparsable,
                ignore_files=ignore_files,
                retain_files=retain_files,
            )
            out["records"] = _canon_records(result.as_records())
            out["files_skipped"] = result.files_skipped
            from sqlfluff.cli import EXIT_FAIL, EXIT_SUCCESS

            st = dict(result.stats(EXIT_FAIL, EXIT_SUCCESS))
            st.pop("avg per file", None)
            st.pop("unclean rate", None)
            out["stats"] = st
            out["tmp_prs"] = list(result.count_tmp_prs_errors())
            out["large_file_skip_fail"] = bool(linter.config.get("large_file_skip_fail"))
        except SimCrash:
            raise
        except BaseException as e:
            if isinstance(e, (KeyboardInterrupt, SystemExit)):
                out["exception"] = _exc_row(e)
            elif isinstance(e, Exception):
                out["exception"] = _exc_row(e)
            else:
                raise
    except SimCrash as c:
        out["crashed"] = str(c)
    finally:
        if restore:
            restore()
        _plan_clear(node)
    out["mon"] = _mon_take()
    if export_shadow:
        # durability state of the simulated disk at the end of the run / at the crash point
        out["shadow"] = shadow_export(node)
        d = node.disk
        was = d.enabled
        d.enabled = False
        try:
            out["shadow"]["volatile"] = _volatile_by_ino(node)
        finally:
            d.enabled = was
    return out


def _install_task_exc(fnames: set):
    """Buggify: lint_rendered raises once for the named files (both runners)."""
    from sqlfluff.core.linter.linter import Linter

    orig = Linter.lint_rendered
    done: set = set()

    def lint_rendered(rendered: Any, rule_pack: Any, fix: bool = False, formatter: Any = None):
        base = os.path.basename(rendered.fname)
        key = os.path.normpath(rendered.fname)
        # once per FILE (not per basename): two files with the same basename in different directories
        # must fail alike whether one process sees both or two workers see one each
        if base in fnames and key not in done:
            done.add(key)
            raise RuntimeError("vsim injected task failure for %s" % base)
        return orig(rendered, rule_pack, fix, formatter)

    Linter.lint_rendered = staticmethod(lint_rendered)  # type: ignore

    def restore() -> None:
        Linter.lint_rendered = staticmethod(orig)  # type: ignore

    return restore


def op_cli(
    node: Any,
    argv: list,
    stdin: Optional[str] = None,
    plan: Optional[list] = None,
    task_exc: Optional[list] = None,
) -> dict:
    """Run the real click command in-process (what the test-suite does)."""
    from click.testing import CliRunner

    from sqlfluff.cli import commands

    install_monitors(node)
    _mon_reset()
    _plan_apply(node, plan)
    cmd = getattr(commands, {"format": "cli_format"}.get(argv[0], argv[0]))
    restore = _install_task_exc(set(task_exc)) if task_exc else None
    if task_exc:
        node.knobs["worker_task_exc"] = list(task_exc)
    out: dict[str, Any] = {}
    try:
        runner = CliRunner()
        res = runner.invoke(cmd, list(argv[1:]), input=stdin, catch_exceptions=True)
        out["exit_code"] = res.exit_code
        out["stdout"] = res.stdout
        try:
            out["stderr"] = res.stderr
        except Exception:
            out["stderr"] = ""
        if res.exception is not None and not isinstance(res.exception, SystemExit):
            if isinstance(res.exception, SimCrash):
                out["crashed"] = str(res.exception)
            else:
                out["exception"] = _exc_row(res.exception)
    finally:
        if restore:
            restore()
        _plan_clear(node)
        if node.disk.dead:
            out["crashed"] = node.disk.death
    out["mon"] = _mon_take()
    return out


# ---- C26 level A ------------------------------------------------------------


def op_prepare_persist(node: Any, path: str, handle: str, overrides: Optional[dict] = None) -> dict:
    install_monitors(node)
    _mon_reset()
    node.disk.reset()
    node._journal_sent = 0
    linter = _mk_linter(node, overrides, None)
    res = linter.lint_paths((path,), fix=True, apply_fixes=False, retain_files=True)
    files = [f for d in res.paths for f in d.files]
    if len(files) != 1:
        return {"files": len(files)}
    lf = files[0]
    node.handles[handle] = lf
    fixed, ok = lf.fix_string()
    _mon_reset()
    return {
        "files": 1,
        "path": lf.path,
        "encoding": lf.encoding,
        "fixable": lf.num_violations(fixable=True, filter_warning=False),
        "fix_string": fixed,
        "fix_ok": ok,
        "source_str": lf.templated_file.source_str if lf.templated_file else None,
    }


def shadow_export(node: Any) -> dict:
    d = node.disk
    sh = d.shadow
    # current path of every tracked inode (walk the namespace journal)
    return {
        "ns": [list(x) for x in sh.ns],
        "durable": dict(sh.durable),
        "dirty": dict(sh.dirty),
        "preexisting": sorted(sh.preexisting),
        "initial_path": {i: d.rel(p) for i, p in sh.initial_path.items()},
        "ns_durable_upto": sh.ns_durable_upto,
        "death": d.death,
        "death_at": d.death_at,
    }


def op_persist(node: Any, handle: str, suffix: str = "", plan: Optional[list] = None) -> dict:
    """Execute LintedFile.persist_tree once under a fault plan."""
    install_monitors(node)
    _mon_reset()
    lf = node.handles[handle]
    d = node.disk
    d.reset(plan)
    node._journal_sent = 0
    out: dict[str, Any] = {}
    try:
        r = lf.persist_tree(suffix=suffix)
        out["returned"] = bool(r)
    except SimCrash as c:
        out["crashed"] = str(c)
    except Exception as e:
        out["raised"] = _exc_row(e)
    out["journal"] = [list(e) for e in d.journal]
    out["shadow"] = shadow_export(node)
    # volatile content of every tracked inode, by the path it has *now*
    vol: dict[str, Any] = {}
    d.enabled = False
    try:
        vol = _volatile_by_ino(node)
    finally:
        d.enabled = True
    out["shadow"]["volatile"] = vol
    _mon_reset()
    return out


def _volatile_by_ino(node: Any) -> dict:
    sh = node.disk.shadow
    out: dict[str, Any] = {}
    root = node.root
    for dp, dn, fn in os.walk(root):
        for f in fn:
            full = os.path.join(dp, f)
            try:
                st = os.lstat(full)
            except OSError:
                continue
            i = sh.ino_ids.get(st.st_ino)
            if i is not None:
                out[i] = real_read(full)
    return out


# ---- SimPool forked workers ---------------------------------------------------


def op_pool_init(node: Any, init: bytes) -> dict:
    fn = pickle.loads(init)
    if fn is not None:
        fn()
    return {"ok": True}


def op_pool_task(node: Any, blob: bytes) -> dict:
    install_monitors(node)
    if node.knobs.get("worker_task_exc") and not node.handles.get("_task_exc"):
        node.handles["_task_exc"] = _install_task_exc(set(node.knobs["worker_task_exc"]))
    func, task = pickle.loads(blob)
    res = func(task)
    return {"blob": bytes(ForkingPickler.dumps(res))}


# ---- simple API / stdin -----------------------------------------------------------


def op_api_fix(node: Any, sql: str, kwargs: Optional[dict] = None) -> dict:
    import sqlfluff

    install_monitors(node)
    _mon_reset()
    out: dict[str, Any] = {}
    try:
        out["fixed"] = sqlfluff.fix(sql, **(kwargs or {}))
    except SimCrash:
        raise
    except Exception as e:
        out["exception"] = _exc_row(e)
    out["mon"] = _mon_take()
    return out


def op_api_lint(node: Any, sql: str, kwargs: Optional[dict] = None) -> dict:
    import sqlfluff

    install_monitors(node)
    _mon_reset()
    out: dict[str, Any] = {}
    try:
        out["violations"] = sqlfluff.lint(sql, **(kwargs or {}))
    except SimCrash:
        raise
    except Exception as e:
        out["exception"] = _exc_row(e)
    out["mon"] = _mon_take()
    return out


# ---- discovery (C25) -------------------------------------------------------------


def _with_read_faults(node: Any, plan: Optional[list]):
    """Arm a fault plan that targets READS for the duration of one op (reads are only journalled -
    and therefore only faultable - while journal_reads is on)."""
    d = node.disk
    was = d.journal_reads
    if plan:
        d.journal_reads = True
        d.plan = [dict(p_) for p_ in plan]

    def done() -> None:
        d.plan = []
        d.journal_reads = was

    return done


def op_discover(node: Any, path: str, ignore_files: bool = True, exts: Optional[list] = None,
                ignore_non_existent_files: bool = False, via: str = "func", plan: Optional[list] = None) -> dict:
    from sqlfluff.core.linter.discovery import paths_from_path

    out: dict[str, Any] = {}
    done = _with_read_faults(node, plan)
    try:
        if via == "func":
            kw: dict[str, Any] = {}
            if exts is not None:
                kw["target_file_exts"] = tuple(exts)
            res = paths_from_path(path, ignore_non_existent_files=ignore_non_existent_files, ignore_files=ignore_files, **kw)
            out["paths"] = list(res)
        else:
            # through the Linter: what actually gets linted
            install_monitors(node)
            _mon_reset()
            ov = {"dialect": "ansi", "rules": "LT12"}
            if exts is not None:
                ov["sql_file_exts"] = ",".join(exts)
            linter = _mk_linter(node, ov, None)
            r = linter.lint_paths((path,), ignore_files=ignore_files, ignore_non_existent_files=ignore_non_existent_files)
            out["paths"] = sorted(rec["filepath"] for rec in r.as_records())
            _mon_reset()
    except SimCrash:
        raise
    except Exception as e:
        out["exception"] = _exc_row(e)
    finally:
        done()
    out["cwd"] = os.getcwd()
    return out


# ---- config observation (C27) -------------------------------------------------------

PROBES = [
    ["core", "max_line_length"],
    ["core", "dialect"],
    ["core", "rules"],
    ["core", "exclude_rules"],
    ["indentation", "tab_space_size"],
    ["indentation", "indent_unit"],
    ["layout", "type", "comma", "line_position"],
    ["rules", "capitalisation.keywords", "capitalisation_policy"],
    ["templater", "jinja", "context", "k1"],
    ["templater", "jinja", "context", "k2"],
    ["templater", "jinja", "load_macros_from_path"],
]


def probe_config(cfg: Any) -> dict:
    out = {}
    for path in PROBES:
        cur: Any = cfg._configs
        for p in path:
            if not isinstance(cur, dict) or p not in cur:
                cur = None
                break
            cur = cur[p]
        if isinstance(cur, list):
            cur = ",".join(str(x) for x in cur)
        out[":".join(path)] = None if cur is None else str(cur)
    return out


def op_effective_config(node: Any, fname: str, handle: str = "root", overrides: Optional[dict] = None,
                        extra_config: Optional[str] = None, plan: Optional[list] = None) -> dict:
    """What Linter.load_raw_file_and_config computes for one file, via a shared root config."""
    from sqlfluff.core import FluffConfig, Linter

    out: dict[str, Any] = {}
    done = _with_read_faults(node, plan)
    try:
        root = node.handles.get("cfg:" + handle)
        if root is None:
            root = FluffConfig.from_root(extra_config_path=extra_config, overrides=dict(overrides) if overrides else None)
            node.handles["cfg:" + handle] = root
        raw, cfg, enc = Linter.load_raw_file_and_config(fname, root)
        out["values"] = probe_config(cfg)
        out["root_values"] = probe_config(root)
    except SimCrash:
        raise
    except Exception as e:
        out["exception"] = _exc_row(e)
    finally:
        done()
    return out


def op_lint_string(node: Any, sql: str, fname: str = "<string>", handle: str = "linter", overrides: Optional[dict] = None,
                   extra_config: Optional[str] = None, fix: bool = False) -> dict:
    install_monitors(node)
    _mon_reset()
    out: dict[str, Any] = {}
    try:
        linter = node.handles.get("linter:" + handle)
        if linter is None:
            linter = _mk_linter(node, overrides, extra_config)
            node.handles["linter:" + handle] = linter
        lf = linter.lint_string(sql, fname=fname, fix=fix)
        out["violations"] = sorted(_violation_row(v) for v in lf.get_violations())
        out["root_values"] = probe_config(linter.config)
    except SimCrash:
        raise
    except Exception as e:
        out["exception"] = _exc_row(e)
    out["mon"] = _mon_take()
    return out


# ---- parser determinism (C06): buggify of fast paths -------------------------------

_BUG: dict[str, Any] = {"installed": False, "cfg": {}, "rng": None, "stats": None}


def _install_buggify(node: Any) -> None:
    import random as _random
    from collections import Counter as _Counter

    if _BUG["installed"]:
        return
    _BUG["installed"] = True
    _BUG["rng"] = _random.Random(node.rng.fork("buggify").randrange(1 << 30))
    _BUG["stats"] = _Counter()
    from sqlfluff.core.parser import match_algorithms as ma
    from sqlfluff.core.parser.context import ParseContext

    orig_check = ParseContext.check_parse_cache

    def check_parse_cache(self: Any, loc_key: Any, matcher_key: str):
        res = orig_check(self, loc_key, matcher_key)
        st = _BUG["stats"]
        r = _BUG["cfg"].get("cache_off", 0)
        if res is not None:
            if r and (r >= 1 or _BUG["rng"].random() < r):
                st["cache_hit_skipped"] += 1
                return None
            st["cache_hit_served"] += 1
        return res

    ParseContext.check_parse_cache = check_parse_cache  # type: ignore

    orig_prune = ma.prune_options

    def prune_options(options: Any, segments: Any, parse_context: Any, start_idx: int = 0):
        st = _BUG["stats"]
        r = _BUG["cfg"].get("prune_off", 0)
        if r and (r >= 1 or _BUG["rng"].random() < r):
            kept = orig_prune(options, segments, parse_context=parse_context, start_idx=start_idx)
            if len(kept) < len(options):
                st["options_unpruned"] += len(options) - len(kept)
                st["prune_calls_skipped"] += 1
            return list(options)
        kept = orig_prune(options, segments, parse_context=parse_context, start_idx=start_idx)
        if len(kept) < len(options):
            st["options_pruned"] += len(options) - len(kept)
        return kept

    ma.prune_options = prune_options  # type: ignore

    orig_next = ma.next_match
    from sqlfluff.core.parser.match_result import MatchResult

    def next_match(segments: Any, idx: int, matchers: Any, parse_context: Any):
        """Brute force: what the simple raw/type maps approximate — at every
        index try every matcher in priority order, first clean match wins."""
        r = _BUG["cfg"].get("next_off", 0)
        if not (r and (r >= 1 or _BUG["rng"].random() < r)):
            return orig_next(segments, idx, matchers, parse_context)
        st = _BUG["stats"]
        st["next_match_bruteforce"] += 1
        max_idx = len(segments)
        if idx >= max_idx:
            return MatchResult.empty_at(idx), None
        for _idx in range(idx, max_idx):
            for m in matchers:
                _match = m.match(segments, _idx, parse_context)
                if _match:
                    return _match, m
        return MatchResult.empty_at(idx), None

    ma.next_match = next_match  # type: ignore


def _tree_sig(seg: Any, out: list, depth: int = 0) -> None:
    pm = seg.pos_marker
    if not seg.segments:
        extra = ""
        if hasattr(seg, "source_str"):
            # template placeholders: their source text and block type are part of the tree (stringify shows them)
            extra = "|%r|%s" % (getattr(seg, "source_str", None), getattr(seg, "block_type", None))
        out.append(
            "%s%s|%r|%s|%s%s"
            % (
                " " * depth,
                seg.get_type(),
                seg.raw,
                (pm.source_slice.start, pm.source_slice.stop) if pm else None,
                (pm.templated_slice.start, pm.templated_slice.stop) if pm else None,
                extra,
            )
        )
        return
    out.append("%s%s:" % (" " * depth, seg.get_type()))
    for s in seg.segments:
        _tree_sig(s, out, depth + 1)


def op_parse(node: Any, text: str, dialect: str, templater: str = "raw", buggify: Optional[dict] = None,
             fname: str = "<string>", handle: Optional[str] = None, timeout_s: int = 60) -> dict:
    import hashlib
    import signal

    from sqlfluff.core import FluffConfig, Linter

    _install_buggify(node)
    _BUG["cfg"] = dict(buggify or {})
    _BUG["stats"].clear()
    out: dict[str, Any] = {}

    def _alarm(*a: Any) -> None:
        raise TimeoutError("parse exceeded %ds" % timeout_s)

    old = signal.signal(signal.SIGALRM, _alarm)
    signal.alarm(timeout_s)
    try:
        linter = node.handles.get("plinter:%s:%s" % (dialect, templater)) if handle else None
        if linter is None:
            cfg = FluffConfig(overrides={"dialect": dialect, "templater": templater})
            linter = Linter(config=cfg)
            if handle:
                node.handles["plinter:%s:%s" % (dialect, templater)] = linter
        parsed = linter.parse_string(text, fname=fname)
        lines: list = []
        if parsed.tree is not None:
            _tree_sig(parsed.tree, lines)
        else:
            lines.append("<no tree>")
        viol = sorted([v.rule_code(), v.line_no, v.line_pos, v.desc()] for v in parsed.violations)
        out["tree"] = "\n".join(lines)
        out["violations"] = viol
        out["digest"] = hashlib.sha256((out["tree"] + repr(viol)).encode("utf-8", "surrogatepass")).hexdigest()
        out["variants"] = len(parsed.parsed_variants)
    except SimCrash:
        raise
    except TimeoutError as e:
        out["timeout"] = str(e)
    except RecursionError as e:
        out["exception"] = ["RecursionError", ""]
    except Exception as e:
        out["exception"] = _exc_row(e)
    finally:
        signal.alarm(0)
        signal.signal(signal.SIGALRM, old)
        _BUG["cfg"] = {}
    out["stats"] = dict(_BUG["stats"])
    return out


def op_lint_text(node: Any, text: str, dialect: str, templater: str = "raw", fix: bool = False) -> dict:
    """A lint/fix of a string in this process (history filler for C06)."""
    from sqlfluff.core import FluffConfig, Linter

    _install_buggify(node)
    _BUG["cfg"] = {}
    out: dict[str, Any] = {}
    try:
        linter = Linter(config=FluffConfig(overrides={"dialect": dialect, "templater": templater}))
        lf = linter.lint_string(text, fix=fix)
        out["n"] = len(lf.violations)
    except SimCrash:
        raise
    except Exception as e:
        out["exception"] = _exc_row(e)
    return out
