"""Batch driver: seeds -> runs on 16 cores -> violations, replays, evidence.

A check module provides:
  ID, LEVEL, RULE (str)
  TIERS = {"quick": {"runs": n, "budget_s": s}, "thorough": {...}}
  run_one(ctx, seed, tier, replay=None) -> dict   (one deterministic run)
  optional: minimise(ctx, violation) -> violation
Run result (JSON-able):
  {seed, digest, evaluations, nontrivial: [keys], violations: [..], faults: {..},
   probes: {..}, sim_time, schedules: [hashes], samples: [..], components: {...}}
Violation: {oracle, signature, message, replay: {...}}
"""

from __future__ import annotations

import faulthandler
import hashlib
import importlib
import json
import os
import subprocess
import sys
import time
import traceback
from collections import Counter
from concurrent.futures import ProcessPoolExecutor, as_completed
from concurrent.futures.process import BrokenProcessPool
from multiprocessing import get_context
from typing import Any, Optional

from vsim.rng import h64

VERIF = os.path.dirname(os.path.dirname(os.path.abspath(__file__)))
EXIT_OK, EXIT_VIOLATION, EXIT_HARNESS = 0, 1, 2

_CTX: dict[str, Any] = {}


class Ctx:
    """Per batch-worker context (lazy cluster)."""

    def __init__(self) -> None:
        self._cluster = None
        self.base_seed = 0

    @property
    def cluster(self):
        if self._cluster is None:
            from vsim.cluster import Cluster

            self._cluster = Cluster()
        return self._cluster

    def hashseeds(self, n: int = 3) -> list[int]:
        """The batch's pool of interpreter hash seeds (function of VERIF_SEED)."""
        return [1 + (h64("hashseed", self.base_seed, j) % 4000000) for j in range(n)]

    def shutdown(self) -> None:
        if self._cluster is not None:
            self._cluster.shutdown()
            self._cluster = None


def get_ctx() -> Ctx:
    if "ctx" not in _CTX:
        _CTX["ctx"] = Ctx()
    return _CTX["ctx"]


def load_check(check_id: str):
    return importlib.import_module("vsim.checks.%s" % check_id.lower())


def _worker_run(check_id: str, seed: int, tier: str, base_seed: int, replay: Optional[dict], timeout_s: int) -> dict:
    faulthandler.dump_traceback_later(timeout_s, exit=True)
    try:
        ctx = get_ctx()
        ctx.base_seed = base_seed
        mod = load_check(check_id)
        t0 = time.time()
        try:
            r = mod.run_one(ctx, seed, tier, replay=replay)
        except Exception:
            return {"seed": seed, "harness_error": traceback.format_exc()}
        r["wall_s"] = time.time() - t0
        r["seed"] = seed
        return r
    finally:
        faulthandler.cancel_dump_traceback_later()


def _worker_exit() -> None:
    get_ctx().shutdown()


def seeds_for(check_id: str, base_seed: int, n: int) -> list[int]:
    return [h64(base_seed, check_id, i) & 0x7FFFFFFF for i in range(n)]


def load_known() -> list[dict]:
    p = os.path.join(VERIF, "known_findings.json")
    if not os.path.exists(p):
        return []
    with open(p) as f:
        return json.load(f).get("findings", [])


def classify(check_id: str, v: dict, known: list[dict]) -> Optional[dict]:
    for k in known:
        if k.get("property") == check_id and k.get("status") == "known" and k.get("signature") == v.get("signature"):
            return k
    return None


def write_replay(check_id: str, seed: int, v: dict) -> str:
    d = os.path.join(VERIF, "replays")
    os.makedirs(d, exist_ok=True)
    body = dict(v.get("replay", {}))
    body.update(
        {
            "property": check_id,
            "oracle": v.get("oracle"),
            "signature": v.get("signature"),
            "seed": seed,
            "message": v.get("message"),
        }
    )
    blob = json.dumps(body, sort_keys=True, indent=1)
    h = hashlib.sha256(blob.encode()).hexdigest()[:8]
    p = os.path.join(d, "%s-%d-%s.json" % (check_id, seed, h))
    with open(p, "w") as f:
        f.write(blob)
    return p


class Batch:
    def __init__(self, check_id: str, tier: str, base_seed: int, workers: int = 8):
        self.check_id = check_id
        self.tier = tier
        self.base_seed = base_seed
        self.mod = load_check(check_id)
        self.cfg = self.mod.TIERS[tier]
        self.workers = int(os.environ.get("VSIM_WORKERS", workers))
        self.results: list[dict] = []
        self.harness_errors: list[str] = []

    def run(self, seeds: Optional[list[int]] = None) -> None:
        cfg = self.cfg
        seeds = seeds if seeds is not None else seeds_for(self.check_id, self.base_seed, cfg["runs"])
        budget = float(os.environ.get("VSIM_BUDGET_S", cfg["budget_s"]))
        per_run_timeout = int(cfg.get("run_timeout_s", 300))
        t0 = time.time()
        os.environ["VSIM_BATCH_OWNER"] = str(os.getpid())  # zygotes are shared by all workers of this run
        ctx = get_context("fork")
        ex = ProcessPoolExecutor(max_workers=self.workers, mp_context=ctx)
        pending = {}
        it = iter(seeds)
        submitted = 0
        try:
            # keep the queue shallow so the time budget can stop dispatching
            def feed() -> None:
                nonlocal submitted
                while len(pending) < self.workers + 1 and time.time() - t0 < budget:
                    try:
                        s = next(it)
                    except StopIteration:
                        return
                    fut = ex.submit(_worker_run, self.check_id, s, self.tier, self.base_seed, None, per_run_timeout)
                    pending[fut] = s
                    submitted += 1

            feed()
            while pending:
                done = next(as_completed(list(pending)))
                s = pending.pop(done)
                try:
                    r = done.result()
                except BrokenProcessPool:
                    self.harness_errors.append("worker died on seed %d (timeout or crash)" % s)
                    break
                except Exception:
                    self.harness_errors.append("seed %d: %s" % (s, traceback.format_exc()))
                    continue
                if os.environ.get("VSIM_TRACE") == "1":
                    print("TRACE t=%.1f seed=%d run_wall=%.1f" % (time.time() - t0, s, r.get("wall_s", -1)), file=sys.stderr, flush=True)
                if "harness_error" in r:
                    self.harness_errors.append("seed %d: %s" % (s, r["harness_error"]))
                else:
                    self.results.append(r)
                feed()
        finally:
            # let workers shut their zygotes down
            try:
                futs = [ex.submit(_worker_exit_task) for _ in range(self.workers)]
                for f in futs:
                    try:
                        f.result(timeout=10)
                    except Exception:
                        pass
            except Exception:
                pass
            ex.shutdown(wait=False, cancel_futures=True)
            try:
                from vsim.cluster import stop_all_zygotes

                stop_all_zygotes(os.getpid())
            except Exception:
                pass
        self.wall = time.time() - t0
        self.results.sort(key=lambda r: seeds.index(r["seed"]) if r["seed"] in seeds else 0)


def _worker_exit_task() -> bool:
    time.sleep(0.05)
    _worker_exit()
    return True


def aggregate(check_id: str, tier: str, base_seed: int, mod: Any, results: list[dict], wall: float, extra: dict) -> dict:
    evaluations = sum(r.get("evaluations", 0) for r in results)
    nontrivial: set = set()
    for r in results:
        nontrivial.update(r.get("nontrivial", []))
    faults: Counter = Counter()
    probes: Counter = Counter()
    schedules: set = set()
    states: set = set()
    sim_time = 0.0
    samples = []
    for r in results:
        faults.update(r.get("faults", {}))
        probes.update(r.get("probes", {}))
        schedules.update(r.get("schedules", []))
        states.update(r.get("states", []))
        sim_time += r.get("sim_time", 0)
        if len(samples) < 3 and r.get("samples"):
            samples.append(r["samples"][0])
    n_viol = sum(len(r.get("violations", [])) for r in results)
    runs = len(results)
    cov = {
        "evaluations": evaluations,
        "distinct_nontrivial": len(nontrivial),
        "rule": mod.RULE,
        "samples": samples or [{"note": "no run completed"}],
        "runs": runs,
        "runs_per_hour": int(runs / wall * 3600) if wall > 0 else 0,
        "seeds": {
            "base": base_seed,
            "derivation": "seed_i = sha256(repr(VERIF_SEED), check id, i)[:8] & 0x7fffffff",
            "first": results[0]["seed"] if results else None,
            "last": results[-1]["seed"] if results else None,
        },
        "sim_time_units": sim_time,
        "fault_counts_fired": dict(sorted(faults.items())),
        "distinct_schedules": len(schedules),
        "distinct_disk_states": len(states),
        "probes": dict(sorted(probes.items())),
        "components_real": getattr(mod, "COMPONENTS_REAL", []),
        "components_stubbed": getattr(mod, "COMPONENTS_STUBBED", []),
        "exhaustive": False,
    }
    cov.update(extra)
    return {
        "property_id": check_id,
        "tier": tier,
        "seed": base_seed,
        "level": mod.LEVEL,
        "coverage": cov,
        "assumptions": getattr(mod, "ASSUMPTIONS", []),
        "wall_s": round(wall, 2),
        "violations": n_viol,
    }


def determinism_selftest(check_id: str, tier: str, base_seed: int, seeds: list[int], digests: dict) -> dict:
    """Re-run some seeds in a *new harness interpreter* under another hash seed."""
    env = dict(os.environ)
    env["PYTHONHASHSEED"] = str(1 + (base_seed + 12345) % 1000)
    env["PYTHONPATH"] = VERIF
    env["VSIM_WORKERS"] = "1"
    env.pop("VSIM_BATCH_OWNER", None)
    cmd = [
        sys.executable,
        "-B",
        os.path.join(VERIF, "vsim_main.py"),
        check_id,
        "--tier",
        tier,
        "--digest-only",
        "--seeds",
        ",".join(str(s) for s in seeds),
        "--base-seed",
        str(base_seed),
    ]
    try:
        out = subprocess.run(cmd, env=env, capture_output=True, text=True, timeout=600, cwd=VERIF)
    except subprocess.TimeoutExpired:
        return {"ok": False, "error": "timeout"}
    got = {}
    for line in out.stdout.splitlines():
        if line.startswith("DIGEST "):
            _, s, d = line.split()
            got[int(s)] = d
    # (a run that hit a wall-clock cap reports UNSTABLE instead of a digest and is not comparable)
    mism = [s for s in seeds if got.get(s) != digests.get(s) and got.get(s) != "UNSTABLE"]
    return {
        "ok": not mism and len(got) == len(seeds),
        "seeds": seeds,
        "mismatch": mism,
        "harness_hashseed": env["PYTHONHASHSEED"],
        "stderr_tail": out.stderr[-400:] if mism or len(got) != len(seeds) else "",
    }


def main(argv: Optional[list[str]] = None) -> int:
    import argparse

    ap = argparse.ArgumentParser()
    ap.add_argument("check")
    ap.add_argument("--tier", default=os.environ.get("VERIF_TIER", "quick"))
    ap.add_argument("--replay")
    ap.add_argument("--seeds")
    ap.add_argument("--base-seed", type=int)
    ap.add_argument("--digest-only", action="store_true")
    ap.add_argument("--no-evidence", action="store_true")
    ap.add_argument("--selftest")
    a = ap.parse_args(argv)
    check_id = a.check.upper()
    tier = a.tier if a.tier in ("quick", "thorough") else "quick"
    base_seed = a.base_seed if a.base_seed is not None else int(os.environ.get("VERIF_SEED", "0") or 0)
    mod = load_check(check_id)

    from vsim.cluster import sweep_stale

    sweep_stale()

    if a.replay:
        return replay_main(check_id, mod, a.replay, tier)

    if a.digest_only:
        ctx = get_ctx()
        ctx.base_seed = base_seed
        try:
            for s in [int(x) for x in a.seeds.split(",")]:
                r = mod.run_one(ctx, s, tier)
                print("DIGEST %d %s" % (s, r.get("digest")))
        finally:
            ctx.shutdown()
        return 0

    print("vsim check=%s tier=%s VERIF_SEED=%d" % (check_id, tier, base_seed), flush=True)
    batch = Batch(check_id, tier, base_seed)
    seeds = [int(x) for x in a.seeds.split(",")] if a.seeds else None
    batch.run(seeds)
    results = batch.results
    known = load_known()
    rc = EXIT_OK
    seen_known: Counter = Counter()
    new_violations = []
    for r in results:
        for v in r.get("violations", []):
            k = classify(check_id, v, known)
            if k is not None:
                seen_known[k["signature"]] += 1
            else:
                new_violations.append((r["seed"], v))
    for sig, n in sorted(seen_known.items()):
        k = [x for x in known if x.get("signature") == sig][0]
        print("KNOWN-FINDING: property=%s %s (seen %d times; %s)" % (check_id, k.get("what", sig), n, sig))
    reported = set()
    for seed, v in new_violations:
        key = (v.get("oracle"), v.get("signature"))
        if key in reported and len(reported) >= 1:
            continue  # one replay per distinct oracle/signature
        reported.add(key)
        if hasattr(mod, "shrink_candidates") and os.environ.get("VSIM_NO_MINIMISE") != "1":
            try:
                from vsim.shrink import minimise

                ctx = get_ctx()
                ctx.base_seed = base_seed
                v = minimise(mod, ctx, seed, tier, v, budget_s=60.0 if tier == "quick" else 300.0)
            except Exception:
                print("minimise failed:\n" + traceback.format_exc(), file=sys.stderr)
            finally:
                get_ctx().shutdown()
        path = write_replay(check_id, seed, v)
        print("VIOLATION property=%s replay=%s" % (check_id, path))
        print("  oracle=%s signature=%s seed=%d\n  %s" % (v.get("oracle"), v.get("signature"), seed, str(v.get("message"))[:600]))
        rc = EXIT_VIOLATION

    extra: dict[str, Any] = {"known_findings_seen": dict(seen_known)}
    # determinism self-test (fresh harness interpreter, different hash seed)
    if results and not a.seeds and os.environ.get("VSIM_NO_SELFTEST") != "1":
        k = 2 if tier == "quick" else 6
        pick = [r for r in results if r.get("digest") and r.get("digest") != "UNSTABLE"][:k]
        dig = {r["seed"]: r["digest"] for r in pick}
        st = determinism_selftest(check_id, tier, base_seed, [r["seed"] for r in pick], dig)
        if not st["ok"] and st.get("mismatch"):
            # one retry of the differing seeds in yet another interpreter: a transient disturbance of one
            # execution (a machine loaded to the point of hitting a wall-clock cap) does not repeat, a
            # source of nondeterminism in the harness does
            st2 = determinism_selftest(check_id, tier, base_seed, list(st["mismatch"]), {s_: dig[s_] for s_ in st["mismatch"]})
            st["retry"] = st2
            if st2["ok"]:
                st["ok"] = True
                st["note"] = "first comparison differed for %s, the retry agreed with the batch digest" % st["mismatch"]
        extra["determinism_selftest"] = st
        if not st["ok"]:
            batch.harness_errors.append("determinism self-test failed: %r" % st)
    for r in results:
        for note in r.get("harness_notes", []):
            batch.harness_errors.append(note)
    for e in batch.harness_errors[:5]:
        print("HARNESS-ERROR: " + e, file=sys.stderr)
    ev = aggregate(check_id, tier, base_seed, mod, results, batch.wall, extra)
    ev["coverage"]["harness_errors"] = len(batch.harness_errors)
    min_runs = batch.cfg.get("min_runs", 1)
    if batch.harness_errors or len(results) < min_runs:
        if rc == EXIT_OK:
            rc = EXIT_HARNESS
    if not a.no_evidence:
        os.makedirs(os.path.join(VERIF, "evidence"), exist_ok=True)
        with open(os.path.join(VERIF, "evidence", "%s.json" % check_id), "w") as f:
            json.dump(ev, f, indent=1, sort_keys=True, default=str)
    c = ev["coverage"]
    print(
        "runs=%d evaluations=%d distinct_nontrivial=%d faults_fired=%d wall=%.1fs violations=%d known=%d harness_errors=%d"
        % (
            c["runs"],
            c["evaluations"],
            c["distinct_nontrivial"],
            sum(c["fault_counts_fired"].values()),
            batch.wall,
            len(new_violations),
            sum(seen_known.values()),
            len(batch.harness_errors),
        )
    )
    return rc


def replay_main(check_id: str, mod: Any, path: str, tier: str) -> int:
    with open(path) as f:
        rp = json.load(f)
    ctx = get_ctx()
    ctx.base_seed = rp.get("base_seed", 0)
    try:
        r = mod.run_one(ctx, rp["seed"], rp.get("tier", tier), replay=rp)
    finally:
        ctx.shutdown()
    vs = r.get("violations", [])
    same = [v for v in vs if v.get("oracle") == rp.get("oracle") and v.get("signature") == rp.get("signature")]
    if same:
        if rp.get("expected_digest"):
            print("digest %s (expected %s): %s" % (r.get("digest"), rp["expected_digest"], "exact replay" if r.get("digest") == rp["expected_digest"] else "DIFFERENT EVENT LOG"))
        print("VIOLATION property=%s replay=%s" % (check_id, path))
        print("  reproduced: oracle=%s signature=%s\n  %s" % (same[0].get("oracle"), same[0].get("signature"), str(same[0].get("message"))[:600]))
        return EXIT_VIOLATION
    if vs:
        print("replay produced a different violation: %s" % vs[0].get("oracle"))
        return EXIT_VIOLATION
    print("replay did not reproduce (property held)")
    return EXIT_OK
