"""Harness side: zygotes (one per hash seed), node handles, world directories."""

from __future__ import annotations

import atexit
import hashlib
import json
import os
import shutil
import subprocess
import sys
import time
from typing import Any, Optional

from vsim.node import RemoteNode

VERIF = os.path.dirname(os.path.dirname(os.path.abspath(__file__)))
REPO_SRC = os.environ.get("VSIM_REPO_SRC", "/repo/src")
PYTHON = os.environ.get("VSIM_PYTHON", "/venv/bin/python")


def scratch_base() -> str:
    for base in ("/dev/shm", os.environ.get("TMPDIR") or "/tmp"):
        if os.path.isdir(base) and os.access(base, os.W_OK):
            d = os.path.join(base, "vsim")
            os.makedirs(d, exist_ok=True)
            return d
    raise RuntimeError("no scratch directory")


def batch_owner() -> int:
    """pid of the harness process whose run this is (batch workers inherit it through the environment)."""
    try:
        return int(os.environ.get("VSIM_BATCH_OWNER", "") or 0) or os.getpid()
    except ValueError:
        return os.getpid()


def registry_dir(owner: Optional[int] = None) -> str:
    d = os.path.join(scratch_base(), "zyg-%d" % (owner or batch_owner()))
    os.makedirs(d, exist_ok=True)
    return d


class Zygote:
    """Handle on a zygote process shared by every batch worker of one harness run.

    Zygotes are pristine and are never mutated by serving forks, so which worker happened to start one
    cannot matter; sharing them means (hash seeds x warm sets) interpreters per run, not per worker.
    """

    def __init__(self, hashseed: int, repo_src: Optional[str] = None, warm: str = "") -> None:
        import fcntl
        import socket as _socket

        self.hashseed = hashseed
        self.warm = warm
        self.repo_src = repo_src or REPO_SRC
        self.owner = batch_owner()
        wtag = hashlib.sha256(warm.encode()).hexdigest()[:6] if warm else "cold"
        stag = hashlib.sha256(os.path.realpath(self.repo_src).encode()).hexdigest()[:6]
        self.sock = os.path.join(registry_dir(self.owner), "z-%d-%s-%s.sock" % (hashseed, wtag, stag))
        self.proc = None
        with open(self.sock + ".lock", "w") as lk:
            fcntl.flock(lk, fcntl.LOCK_EX)
            alive = False
            if os.path.exists(self.sock):
                try:
                    c = _socket.socket(_socket.AF_UNIX, _socket.SOCK_STREAM)
                    c.settimeout(5)
                    c.connect(self.sock)
                    c.close()  # (a connection that says nothing is dropped by the node it spawned)
                    alive = True
                except OSError:
                    alive = False
            if not alive:
                self._start()

    def _start(self) -> None:
        env = dict(os.environ)
        env["PYTHONHASHSEED"] = str(self.hashseed)
        env["PYTHONPATH"] = self.repo_src + ":" + VERIF
        env["PYTHONDONTWRITEBYTECODE"] = "1"
        env["SQLFLUFF_VERIF_SIM"] = "1"
        env["VSIM_ZYGOTE_WARM"] = self.warm
        env.pop("SQLFLUFF_CONFIG", None)
        proc = subprocess.Popen(
            [PYTHON, "-B", "-m", "vsim.zygote", self.sock, str(self.owner)],
            stdin=subprocess.DEVNULL,
            stdout=subprocess.PIPE,
            env=env,
            cwd=VERIF,
            start_new_session=True,
        )
        assert proc.stdout is not None
        line = proc.stdout.readline().decode()
        proc.stdout.close()
        if not line.startswith("READY"):
            raise RuntimeError("zygote failed to start: %r" % line)
        parts = line.split()
        src = parts[2] if len(parts) > 2 else "?"
        if os.path.realpath(src) != os.path.realpath(self.repo_src):
            raise RuntimeError("zygote imported sqlfluff from %s, expected %s" % (src, self.repo_src))
        self.proc = proc

    def alive(self) -> bool:
        return os.path.exists(self.sock)

    def node(self, init: dict, sink: Optional[list] = None) -> RemoteNode:
        return RemoteNode(self.sock, init, sink=sink)

    def stop(self) -> None:
        """Zygotes belong to the run, not to a worker: only the owner tears them down (stop_all_zygotes)."""


def stop_all_zygotes(owner: Optional[int] = None) -> None:
    d = os.path.join(scratch_base(), "zyg-%d" % (owner or os.getpid()))
    if not os.path.isdir(d):
        return
    import signal

    for name in os.listdir(d):
        if name.endswith(".pid"):
            try:
                os.kill(int(open(os.path.join(d, name)).read().strip() or "0"), signal.SIGTERM)
            except (OSError, ValueError):
                pass
    shutil.rmtree(d, ignore_errors=True)


class Cluster:
    """Per batch-worker: a few zygotes + world root allocation."""

    def __init__(self, repo_src: Optional[str] = None, max_zygotes: int = 6) -> None:
        self.repo_src = repo_src or REPO_SRC
        self.zygotes: dict[Any, Zygote] = {}
        self.order: list[Any] = []
        self.max = max_zygotes
        self.roots: list[str] = []
        atexit.register(self.shutdown)

    def zygote(self, hashseed: int, warm: str = "") -> Zygote:
        key = (hashseed, warm)
        z = self.zygotes.get(key)
        if z is not None and z.alive():
            return z
        z = Zygote(hashseed, self.repo_src, warm)
        self.zygotes[key] = z
        self.order.append(key)
        return z

    def new_root(self, tag: str) -> str:
        """A world directory whose path is a function of the tag (so absolute
        paths replay identically). A stale directory of a dead owner is
        reclaimed; a live collision shifts to the next name."""
        base = scratch_base()
        n = int(hashlib.sha256(tag.encode()).hexdigest()[:8], 16)
        for i in range(10000):
            d = os.path.join(base, "r%08x" % ((n + i) & 0xFFFFFFFF))
            pidf = d + ".pid"
            try:
                os.mkdir(d)
            except FileExistsError:
                owner = None
                try:
                    owner = int(open(pidf).read().strip() or "0")
                except (OSError, ValueError):
                    pass
                alive = False
                if owner:
                    try:
                        os.kill(owner, 0)
                        alive = True
                    except ProcessLookupError:
                        alive = False
                    except PermissionError:
                        alive = True
                elif owner is None:
                    try:
                        alive = time.time() - os.stat(d).st_mtime < 30
                    except OSError:
                        alive = True
                if alive:
                    continue
                _force_rmtree(d)
                try:
                    os.mkdir(d)
                except FileExistsError:
                    continue
            with open(pidf, "w") as f:
                f.write(str(os.getpid()))
            self.roots.append(d)
            return d
        raise RuntimeError("cannot allocate world root")

    def drop_root(self, root: str) -> None:
        if root in self.roots:
            self.roots.remove(root)
        _force_rmtree(root)
        try:
            os.unlink(root + ".pid")
        except OSError:
            pass

    def shutdown(self) -> None:
        self.zygotes.clear()
        if batch_owner() == os.getpid():
            stop_all_zygotes(os.getpid())
        for r in list(self.roots):
            self.drop_root(r)
        self.roots = []


def _force_rmtree(root: str) -> None:
    if not os.path.isdir(root):
        return
    for dp, dn, fn in os.walk(root):
        try:
            os.chmod(dp, 0o755)
        except OSError:
            pass
    shutil.rmtree(root, ignore_errors=True)


def sweep_stale(max_age_s: int = 6 * 3600) -> None:
    """Remove world roots / sockets left by killed harness processes."""
    base = scratch_base()
    now = time.time()
    for name in os.listdir(base):
        p = os.path.join(base, name)
        try:
            if now - os.stat(p).st_mtime > max_age_s:
                if os.path.isdir(p):
                    _force_rmtree(p)
                else:
                    os.unlink(p)
        except OSError:
            pass


def canon(obj: Any, root: str) -> str:
    s = json.dumps(obj, sort_keys=True, default=_default, ensure_ascii=True)
    return s.replace(root, "$ROOT")


def _default(o: Any) -> Any:
    if isinstance(o, (bytes, bytearray)):
        return "b64:" + __import__("base64").b64encode(bytes(o)).decode()
    if isinstance(o, (set, frozenset)):
        return sorted(o)
    if isinstance(o, tuple):
        return list(o)
    return repr(o)


def digest(obj: Any, root: str) -> str:
    return hashlib.sha256(canon(obj, root).encode()).hexdigest()
