"""Zygote: a pristine interpreter that has just imported sqlfluff.

Started with a chosen PYTHONHASHSEED. Every accepted connection on its unix
socket is served by a *forked child* = a node: exactly a fresh process that
has imported sqlfluff and nothing else (no dialect module, no config load,
no progress bar, so single-threaded and with empty caches).

usage: python -B -m vsim.zygote <socket path>
Exits when its stdin reaches EOF (the harness process went away).
"""

from __future__ import annotations

import os
import select
import signal
import socket
import sys


def main() -> None:
    sockpath = sys.argv[1]
    # --- the only imports a zygote ever performs -------------------------
    import sqlfluff  # noqa: F401
    import sqlfluff.cli.commands  # noqa: F401
    import sqlfluff.core  # noqa: F401
    import sqlfluff.core.linter.runner  # noqa: F401
    import tqdm

    tqdm.tqdm.monitor_interval = 0  # never start tqdm's monitor thread

    from vsim import node  # noqa: F401  (seams, simpool, ops come with it)
    from vsim import ops  # noqa: F401

    warm = os.environ.get("VSIM_ZYGOTE_WARM", "")
    if warm:
        # A *warm* zygote additionally performs the lazy imports every real
        # sqlfluff process performs on its first lint (rule plugins, the named
        # dialect modules). Import only: no config is loaded, nothing is parsed.
        from sqlfluff.core.dialects import load_raw_dialect
        from sqlfluff.core.plugin.host import get_plugin_manager
        from sqlfluff.core.rules import get_ruleset

        get_plugin_manager()
        get_ruleset()
        for d in warm.split(","):
            if d and d != "rules":
                load_raw_dialect(d)
    import gc

    gc.collect()
    gc.freeze()  # collector bookkeeping only: keeps forks from COW-touching every object

    src = os.path.dirname(os.path.dirname(os.path.abspath(sqlfluff.__file__)))
    srv = socket.socket(socket.AF_UNIX, socket.SOCK_STREAM)
    try:
        os.unlink(sockpath)
    except FileNotFoundError:
        pass
    srv.bind(sockpath)
    srv.listen(128)
    signal.signal(signal.SIGCHLD, signal.SIG_IGN)  # auto-reap nodes
    sys.stdout.write("READY %s %s\n" % (os.environ.get("PYTHONHASHSEED", "?"), src))
    sys.stdout.flush()
    stdin_fd = sys.stdin.fileno()
    while True:
        r, _, _ = select.select([srv, stdin_fd], [], [])
        if stdin_fd in r:
            if not os.read(stdin_fd, 4096):
                break
        if srv in r:
            conn, _ = srv.accept()
            pid = os.fork()
            if pid == 0:
                try:
                    srv.close()
                    os.close(stdin_fd)
                    node.serve(conn, sockpath)
                finally:
                    os._exit(0)
            conn.close()
    try:
        os.unlink(sockpath)
    except OSError:
        pass


if __name__ == "__main__":
    main()
