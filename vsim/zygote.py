"""Zygote: a pristine interpreter that has just imported sqlfluff.

Started with a chosen PYTHONHASHSEED. Every accepted connection on its unix
socket is served by a *forked child* = a node: exactly a fresh process that
has imported sqlfluff and nothing else (no dialect module, no config load,
no progress bar, so single-threaded and with empty caches).

usage: python -B -m vsim.zygote <socket path> [owner pid]
Without an owner pid it exits when its stdin reaches EOF (the harness process went away);
with one (a zygote shared by all batch workers of one harness run) it exits when that
process is gone or when its socket file is removed.
"""

from __future__ import annotations

import os
import select
import signal
import socket
import sys


def _immortalize_everything(gc) -> int:
    """Mark every object alive now as immortal (PEP 683: refcount low word = 0xFFFFFFFF).

    Why: a node is a fork of this process. Merely *reading* an inherited object writes its
    reference count, i.e. copy-on-write faults on nearly every inherited page - and in this
    sandbox COW faults are serialised across all processes (measured: 8 forked readers of a
    40 MB heap take 37 s instead of 2 s; with immortal objects 5.6 s). Immortal objects are
    never written by Py_INCREF/Py_DECREF, so nodes share the zygote's pages. This changes
    memory management only (these objects are never freed), not Python semantics.
    """
    import ctypes

    if sys.version_info < (3, 12) or ctypes.sizeof(ctypes.c_ssize_t) != 8:
        return 0
    seen: set = set()
    stack = list(gc.get_objects())
    get_referents = gc.get_referents
    while stack:
        o = stack.pop()
        i = id(o)
        if i in seen:
            continue
        seen.add(i)
        try:
            stack.extend(get_referents(o))
        except Exception:
            pass
    skip = {id(seen), id(stack)}
    ssz = ctypes.c_ssize_t
    n = 0
    for i in seen:
        if i in skip:
            continue
        ssz.from_address(i).value = 0xFFFFFFFF
        n += 1
    return n


def main() -> None:
    sockpath = sys.argv[1]
    # --- the only imports a zygote ever performs -------------------------
    import sqlfluff  # noqa: F401
    import sqlfluff.cli.commands  # noqa: F401
    import sqlfluff.core  # noqa: F401
    import sqlfluff.core.linter.runner  # noqa: F401
    import tqdm

    tqdm.tqdm.monitor_interval = 0  # never start tqdm's monitor thread

    from vsim import node  # noqa: F401  (seams, simpool, ops come with it)
    from vsim import ops  # noqa: F401

    warm = os.environ.get("VSIM_ZYGOTE_WARM", "")
    if warm:
        # A *warm* zygote additionally performs the lazy imports every real
        # sqlfluff process performs on its first lint (rule plugins, the named
        # dialect modules). Import only: no config is loaded, nothing is parsed.
        from sqlfluff.core.dialects import load_raw_dialect
        from sqlfluff.core.plugin.host import get_plugin_manager
        from sqlfluff.core.rules import get_ruleset

        get_plugin_manager()
        get_ruleset()
        for d in warm.split(","):
            if d and d != "rules":
                load_raw_dialect(d)
    import gc

    gc.collect()
    if os.environ.get("VSIM_IMMORTAL", "0") == "1":
        _immortalize_everything(gc)
    gc.freeze()  # collector bookkeeping only: keeps forks from COW-touching every object

    src = os.path.dirname(os.path.dirname(os.path.abspath(sqlfluff.__file__)))
    srv = socket.socket(socket.AF_UNIX, socket.SOCK_STREAM)
    try:
        os.unlink(sockpath)
    except FileNotFoundError:
        pass
    srv.bind(sockpath)
    srv.listen(128)
    signal.signal(signal.SIGCHLD, signal.SIG_IGN)  # auto-reap nodes
    sys.stdout.write("READY %s %s\n" % (os.environ.get("PYTHONHASHSEED", "?"), src))
    sys.stdout.flush()
    owner = int(sys.argv[2]) if len(sys.argv) > 2 else 0
    stdin_fd = sys.stdin.fileno()
    with open(sockpath + ".pid", "w") as f:
        f.write(str(os.getpid()))
    while True:
        if owner:
            r, _, _ = select.select([srv], [], [], 2.0)
            try:
                os.kill(owner, 0)
            except ProcessLookupError:
                break
            except PermissionError:
                pass
            if not os.path.exists(sockpath):
                break
        else:
            r, _, _ = select.select([srv, stdin_fd], [], [])
            if stdin_fd in r:
                if not os.read(stdin_fd, 4096):
                    break
        if srv in r:
            conn, _ = srv.accept()
            pid = os.fork()
            if pid == 0:
                try:
                    srv.close()
                    if not owner:
                        os.close(stdin_fd)
                    node.serve(conn, sockpath)
                finally:
                    os._exit(0)
            conn.close()
    try:
        os.unlink(sockpath + ".pid")
    except OSError:
        pass
    try:
        os.unlink(sockpath)
    except OSError:
        pass


if __name__ == "__main__":
    main()
