"""Node: one simulated process. Runs in a child forked from a zygote.

Receives an init message, installs the seams, then executes ops one at a
time; each reply carries the op's canonical result and the slice of the
event log (disk journal, pool events, captured log lines) it produced.
"""

from __future__ import annotations

import logging
import os
import random
import socket
import sys
import traceback
import uuid as _uuid
from typing import Any, Optional

from vsim import wire
from vsim.rng import Chooser, Rng
from vsim.seams import Disk, SimCrash
from vsim.simpool import PoolSim


class VirtualClock:
    """Stands in for the `time` module inside sqlfluff's linter/cli modules."""

    def __init__(self, rng: random.Random) -> None:
        import time as _t

        self._t = _t
        self._rng = rng
        self.now = 1000.0
        self.reads = 0
        self.jumps = 0

    def monotonic(self) -> float:
        self.reads += 1
        self.now += self._rng.choice((0.0, 0.001, 0.001, 0.01, 0.25))
        return self.now

    def perf_counter(self) -> float:
        return self.monotonic()

    def time(self) -> float:
        return 1_700_000_000.0 + self.monotonic()

    def sleep(self, s: float) -> None:
        self.now += s

    def jump(self, s: float) -> None:
        self.jumps += 1
        self.now += s

    def __getattr__(self, name: str) -> Any:
        return getattr(self._t, name)


class LogCapture(logging.Handler):
    def __init__(self) -> None:
        super().__init__(level=logging.WARNING)
        self.records: list[list] = []

    def emit(self, record: logging.LogRecord) -> None:
        try:
            msg = record.getMessage()
        except Exception:
            msg = str(record.msg)
        self.records.append([record.name, record.levelname, msg])


class Node:
    def __init__(self, conn: socket.socket, zsock: str, init: dict) -> None:
        self.conn = conn
        self.zsock = zsock
        self.name: str = init["name"]
        self.root: str = init["root"]
        self.seed: int = init.get("seed", 0)
        self.knobs: dict = init.get("knobs", {})
        self.role = init.get("role", "node")
        self.events: list[list] = []
        rng = Rng(self.seed, "node/" + self.name)
        self.rng = rng
        self.chooser = Chooser(rng.fork("sched"), tape=init.get("tape"))
        self.disk = Disk(
            self.root,
            node=self.name,
            bufsize=self.knobs.get("bufsize", 8192),
            listing=self.knobs.get("listing", "sorted"),
            pick=self.chooser.pick,
            fsync_persists_dirent=self.knobs.get("fsync_persists_dirent", True),
            journal_reads=self.knobs.get("journal_reads", True),
            rawmax=self.knobs.get("rawmax", 0),
        )
        if self.role == "worker" and self.knobs.get("worker_plan"):
            self.disk.plan = [dict(p) for p in self.knobs["worker_plan"]]
        self.clock = VirtualClock(random.Random(rng.fork("clock").randrange(1 << 30)))
        self.poolsim = PoolSim(
            pick=self.chooser.pick,
            log=self.events.append,
            backend=self.knobs.get("pool_backend", "inproc"),
            lookahead=self.knobs.get("lookahead", 2),
            dequeue=self.knobs.get("dequeue", "fifo"),
            worker_factory=self._spawn_worker,
            straggler=self.knobs.get("straggler"),
        )
        self.logcap = LogCapture()
        self.handles: dict[str, Any] = {}
        self.nworkers = 0
        self._journal_sent = 0
        self._log_sent = 0
        self.init = init

    # -- environment -------------------------------------------------------
    def setup(self) -> None:
        import tempfile

        import tqdm

        init = self.init
        env = init.get("env", {})
        home = os.path.join(self.root, "home", "u")
        os.environ["HOME"] = home
        os.environ["XDG_CONFIG_HOME"] = os.path.join(home, ".config")
        for k in ("SQLFLUFF_CONFIG", "COLUMNS", "LINES", "NO_COLOR", "FORCE_COLOR"):
            os.environ.pop(k, None)
        for k, v in env.items():
            os.environ[k] = v
        cwd = os.path.join(self.root, init.get("cwd", ""))
        if os.path.isdir(cwd):
            os.chdir(cwd)
        logging.raiseExceptions = False
        tqdm.tqdm.monitor_interval = 0

        # paths_from_path binds os.getcwd() at import time; in a real process
        # import cwd == process start cwd.
        from sqlfluff.core.linter import discovery

        d = list(discovery.paths_from_path.__defaults__)
        start_cwd = os.path.join(self.root, init.get("start_cwd", init.get("cwd", "")))
        d[2] = start_cwd.rstrip("/") if os.path.isdir(start_cwd) else os.getcwd()
        discovery.paths_from_path.__defaults__ = tuple(d)

        # clock
        import sqlfluff.cli.commands as _cmds
        import sqlfluff.core.linter.linter as _linter
        import sqlfluff.core.linter.linting_result as _lr

        _linter.time = self.clock
        _lr.time = self.clock
        _cmds.time = self.clock

        # uuid4
        urng = random.Random(self.rng.fork("uuid").randrange(1 << 30))

        def _uuid4() -> _uuid.UUID:
            return _uuid.UUID(int=urng.getrandbits(128), version=4)

        import sqlfluff.core.parser.grammar.base as _gb
        import sqlfluff.core.parser.lexer as _lx
        import sqlfluff.core.parser.parsers as _ps

        _gb.uuid4 = _uuid4
        _lx.uuid4 = _uuid4
        _ps.uuid4 = _uuid4
        _uuid.uuid4 = _uuid4

        # temp names
        trng = random.Random(self.rng.fork("tmpnames").randrange(1 << 30))
        tempfile._RandomNameSequence.rng = property(lambda s: trng)  # type: ignore

        # cpu count, pool
        import multiprocessing

        from sqlfluff.core.linter import runner as _runner

        cpus = self.knobs.get("cpu_count", 4)
        multiprocessing.cpu_count = lambda: cpus  # type: ignore
        if self.knobs.get("pool_backend") != "real":
            _runner.MultiProcessRunner.POOL_TYPE = self.poolsim.factory  # type: ignore
        # "real": the stdlib multiprocessing.Pool stays in place (SimPool fidelity cross-check only;
        # its scheduling is the OS's, so such a run is never part of a digest or a verdict)

        from sqlfluff.core.config import progress_bar_configuration

        progress_bar_configuration.disable_progress_bar = True

        logging.getLogger("sqlfluff").addHandler(self.logcap)
        self.disk.install()

    def _spawn_worker(self) -> "RemoteNode":
        self.nworkers += 1
        name = "%s.w%d" % (self.name, self.nworkers)
        init = {
            "name": name,
            "root": self.root,
            "seed": self.seed,
            "cwd": os.path.relpath(os.getcwd(), self.root),
            "start_cwd": self.init.get("start_cwd", self.init.get("cwd", "")),
            "knobs": dict(self.knobs, pool_backend="inproc"),
            "env": dict(self.init.get("env", {})),
            "role": "worker",
        }
        rn = RemoteNode(self.zsock, init, sink=self.events)
        return rn

    # -- op loop -------------------------------------------------------------
    def flush_events(self) -> list:
        j = self.disk.journal
        out = self.events[:]
        del self.events[:]
        if self._journal_sent > len(j):
            self._journal_sent = 0
        for e in j[self._journal_sent :]:
            out.append(["disk", self.name] + list(e))
        self._journal_sent = len(j)
        recs = self.logcap.records
        for r in recs[self._log_sent :]:
            out.append(["log", self.name] + r)
        self._log_sent = len(recs)
        return out

    def run(self) -> None:
        from vsim import ops

        while True:
            try:
                msg = wire.recv(self.conn)
            except wire.PeerGone:
                return
            op = msg["op"]
            if op == "exit":
                wire.send(self.conn, {"ok": True, "tape": self.chooser.tape})
                return
            fn = getattr(ops, "op_" + op, None)
            reply: dict[str, Any]
            if fn is None:
                reply = {"harness_error": "unknown op %r" % op}
            else:
                try:
                    res = fn(self, **msg.get("args", {}))
                    reply = {"result": res}
                except SimCrash as c:
                    reply = {"result": {"crashed": str(c)}}
                except BaseException:
                    reply = {"harness_error": traceback.format_exc()}
            reply["events"] = self.flush_events()
            reply["fired"] = dict(self.disk.fired)
            reply["pool"] = dict(self.poolsim.stats)
            reply["tape_len"] = len(self.chooser.tape)
            wire.send(self.conn, reply)


class RemoteNode:
    """Client handle on a node (used by the harness and by SimPool's forked backend)."""

    def __init__(self, zsock: str, init: dict, sink: Optional[list] = None) -> None:
        self.sock = socket.socket(socket.AF_UNIX, socket.SOCK_STREAM)
        self.sock.connect(zsock)
        self.sink = sink
        self.name = init["name"]
        self.fired: dict = {}
        self.pool: dict = {}
        self.tape: list = []
        self.closed = False
        wire.send(self.sock, init)
        r = wire.recv(self.sock)
        if not r.get("ok"):
            raise RuntimeError("node init failed: %s" % r.get("harness_error"))
        self.pid = r.get("pid")

    def kill(self) -> None:
        """SIGKILL the node process (only for runs outside the simulator's control, e.g. the real pool)."""
        self.closed = True
        try:
            if self.pid:
                os.kill(int(self.pid), 9)
        except OSError:
            pass
        try:
            self.sock.close()
        except Exception:
            pass

    def call(self, op: str, **args: Any) -> Any:
        wire.send(self.sock, {"op": op, "args": args})
        try:
            r = wire.recv(self.sock)
        except wire.PeerGone:
            raise RuntimeError("node %s died during op %s" % (self.name, op))
        if self.sink is not None:
            self.sink.extend(r.get("events", []))
        for k, v in r.get("fired", {}).items():
            self.fired[k] = v
        self.pool = r.get("pool", self.pool)
        if "harness_error" in r:
            raise RuntimeError("harness error in node %s op %s:\n%s" % (self.name, op, r["harness_error"]))
        return r["result"]

    def close(self) -> list:
        if self.closed:
            return self.tape
        self.closed = True
        try:
            wire.send(self.sock, {"op": "exit"})
            r = wire.recv(self.sock)
            self.tape = r.get("tape", [])
        except Exception:
            pass
        try:
            self.sock.close()
        except Exception:
            pass
        return self.tape


def serve(conn: socket.socket, zsock: str) -> None:
    try:
        init = wire.recv(conn)
    except wire.PeerGone:
        return
    try:
        node = Node(conn, zsock, init)
        node.setup()
    except BaseException:
        wire.send(conn, {"ok": False, "harness_error": traceback.format_exc()})
        return
    wire.send(conn, {"ok": True, "pid": os.getpid()})
    sys.unraisablehook = lambda *a: None  # dead-disk finalisers are expected noise
    node.run()
