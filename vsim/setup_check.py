"""setup_cmd: verify the offline environment; builds nothing."""
import os
import sys

os.environ.setdefault("PYTHONDONTWRITEBYTECODE", "1")
sys.path.insert(0, "/repo/src")
sys.path.insert(0, os.path.dirname(os.path.dirname(os.path.abspath(__file__))))
import click  # noqa
import pathspec  # noqa
import sqlfluff  # noqa
import sqlfluff.cli.commands  # noqa
from sqlfluff.core.linter.runner import MultiProcessRunner  # noqa

assert os.path.realpath(os.path.dirname(sqlfluff.__file__)).startswith("/repo/src"), sqlfluff.__file__
assert hasattr(MultiProcessRunner, "POOL_TYPE")
from vsim.cluster import scratch_base  # noqa

print("ok: sqlfluff", sqlfluff.__version__, "from", os.path.dirname(sqlfluff.__file__), "scratch", scratch_base())
