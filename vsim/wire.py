"""Length-prefixed pickle framing over a unix socket (trusted, local only)."""

from __future__ import annotations

import pickle
import socket
import struct
from typing import Any


class PeerGone(RuntimeError):
    pass


def send(sock: socket.socket, obj: Any) -> None:
    data = pickle.dumps(obj, protocol=4)
    sock.sendall(struct.pack("!Q", len(data)) + data)


def _recvn(sock: socket.socket, n: int) -> bytes:
    parts = []
    while n:
        b = sock.recv(min(n, 1 << 20))
        if not b:
            raise PeerGone("peer closed the connection")
        parts.append(b)
        n -= len(b)
    return b"".join(parts)


def recv(sock: socket.socket) -> Any:
    (n,) = struct.unpack("!Q", _recvn(sock, 8))
    return pickle.loads(_recvn(sock, n))
