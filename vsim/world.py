"""The shared "fix-run world" generator (DESIGN §3.10).

A world is a JSON-serialisable value so it can live inside a replay file:
  {files: {rel: {b64, mode}}, cwd, meta: {rel: {...what was injected...}}, cfg: {...}}
Generated swarm style from the `world` stream: every run enables a drawn
subset of features.
"""

from __future__ import annotations

import base64
import os
import re
from typing import Any, Optional

from vsim.rng import Rng

_HERE = os.path.dirname(os.path.abspath(__file__))
_CORPUS: dict[str, list[str]] = {}


def corpus(name: str = "ansi") -> list[str]:
    if name not in _CORPUS:
        with open(os.path.join(_HERE, "corpus", name + ".sql"), encoding="utf-8") as f:
            txt = f.read()
        _CORPUS[name] = [s.strip("\n") + "\n" for s in txt.split("-- ----\n") if s.strip()]
    return _CORPUS[name]


RULE_CASES_DIR = "/repo/test/fixtures/rules/std_rule_cases"
_RULE_CASES: list[dict] = []
_RULE_CASES_LOADED = False


def rule_cases() -> list[dict]:
    """SQL snippets of sqlfluff's own rule test cases (when readable): each is sensitive to a
    rule, often to a dialect. -> [{rule, name, sql, dialect}] in a fixed (sorted) order."""
    global _RULE_CASES_LOADED
    if _RULE_CASES_LOADED:
        return _RULE_CASES
    _RULE_CASES_LOADED = True
    try:
        import yaml

        loader = getattr(yaml, "CSafeLoader", yaml.SafeLoader)
        for fn in sorted(os.listdir(RULE_CASES_DIR)):
            if not fn.endswith(".yml"):
                continue
            with open(os.path.join(RULE_CASES_DIR, fn), encoding="utf-8") as f:
                doc = yaml.load(f, Loader=loader)
            if not isinstance(doc, dict):
                continue
            for name, case in doc.items():
                if not isinstance(case, dict):
                    continue
                dia = ((case.get("configs") or {}).get("core") or {}).get("dialect")
                for key in ("fail_str", "pass_str"):
                    sql = case.get(key)
                    if isinstance(sql, str) and 0 < len(sql) <= 1200 and "\r" not in sql:
                        _RULE_CASES.append({"rule": str(doc.get("rule")), "name": "%s:%s" % (name, key), "sql": sql, "dialect": dia})
    except Exception:
        del _RULE_CASES[:]
    return _RULE_CASES


KEYWORDS = ["SELECT", "FROM", "WHERE", "AND", "AS", "ON", "GROUP BY", "ORDER BY", "INNER JOIN", "LEFT JOIN"]

# ---------------------------------------------------------------------------
# violation injectors (fixable)
# ---------------------------------------------------------------------------


def _code_lines(text: str) -> list[int]:
    """Indexes of lines that hold code and no quote or comment (safe to edit)."""
    out = []
    for i, ln in enumerate(text.split("\n")):
        if ln.strip() and "'" not in ln and "--" not in ln and "/*" not in ln and "*/" not in ln and "{" not in ln:
            out.append(i)
    return out


def inj_double_space(rng: Rng, text: str) -> Optional[str]:
    lines = text.split("\n")
    cands = [i for i in _code_lines(text) if re.search(r"\S \S", lines[i])]
    if not cands:
        return None
    i = rng.choice(cands)
    spots = [m.start() + 1 for m in re.finditer(r"\S \S", lines[i])]
    p = rng.choice(spots)
    lines[i] = lines[i][:p] + " " + lines[i][p:]
    return "\n".join(lines)


def inj_trailing_ws(rng: Rng, text: str) -> Optional[str]:
    lines = text.split("\n")
    cands = _code_lines(text)
    if not cands:
        return None
    i = rng.choice(cands)
    lines[i] = lines[i] + rng.choice([" ", "  ", "\t"])
    return "\n".join(lines)


def inj_lower_kw(rng: Rng, text: str) -> Optional[str]:
    lines = text.split("\n")
    cands = []
    for i in _code_lines(text):
        for kw in ("SELECT", "FROM", "WHERE", "AND", "ON"):
            for m in re.finditer(r"\b%s\b" % kw, lines[i]):
                cands.append((i, m.start(), kw))
    if not cands:
        return None
    i, p, kw = rng.choice(cands)
    lines[i] = lines[i][:p] + kw.lower() + lines[i][p + len(kw) :]
    return "\n".join(lines)


def inj_no_final_newline(rng: Rng, text: str) -> Optional[str]:
    return text.rstrip("\n") if text.endswith("\n") else None


def inj_extra_final_newlines(rng: Rng, text: str) -> Optional[str]:
    return text + "\n" * rng.randint(1, 2)


def inj_bad_indent(rng: Rng, text: str) -> Optional[str]:
    lines = text.split("\n")
    cands = [i for i in _code_lines(text) if lines[i].startswith("    ")]
    if not cands:
        return None
    i = rng.choice(cands)
    lines[i] = rng.choice(["  ", " ", "   "]) + lines[i]
    return "\n".join(lines)


def inj_comma_space(rng: Rng, text: str) -> Optional[str]:
    lines = text.split("\n")
    cands = [i for i in _code_lines(text) if ", " in lines[i]]
    if not cands:
        return None
    i = rng.choice(cands)
    lines[i] = lines[i].replace(", ", ",", 1)
    return "\n".join(lines)


FIXABLE = {
    "double_space": inj_double_space,
    "trailing_ws": inj_trailing_ws,
    "lower_kw": inj_lower_kw,
    "no_final_newline": inj_no_final_newline,
    "extra_final_newlines": inj_extra_final_newlines,
    "bad_indent": inj_bad_indent,
    "comma_space": inj_comma_space,
}

# ---------------------------------------------------------------------------
# unfixable + breakers
# ---------------------------------------------------------------------------


def inj_unfixable(rng: Rng, text: str) -> Optional[str]:
    # RF04: keyword used as identifier (no fix offered)
    return text.rstrip("\n") + "\n;\n\nSELECT tbl.a AS value\nFROM tbl\n"


def brk_parse(rng: Rng, text: str) -> str:
    kind = rng.choice(["open_bracket", "stray_kw", "stray_close"])
    body = text.rstrip("\n")
    if kind == "open_bracket":
        return body + "\n;\n\nSELECT a FROM (\n"
    if kind == "stray_kw":
        return body + "\n;\n\nSELECT FROM WHERE\n"
    return body + "\n;\n\nSELECT a )) FROM tbl\n"


def brk_tmpl_undefined(rng: Rng, text: str) -> str:
    # NOTE: every file uses the same variable name on purpose (state kept per *name* by a templater
    # or linter that outlives one file shows up when a second file mentions the name again)
    if rng.chance(0.4):
        # renders to nothing in a place where the statement is then unparsable too
        return text.rstrip("\n") + "\n;\n\nSELECT {{ undefined_vsim_var }} AS x\nFROM tbl\n"
    # renders to nothing where the rest still parses: the templating error is the only error
    return text.rstrip("\n") + "\n;\n\nSELECT a\nFROM tbl\nWHERE a > 1 {{ undefined_vsim_var }}\n"


def brk_tmpl_fatal(rng: Rng, text: str) -> str:
    return text.rstrip("\n") + "\n;\n\n{% if cond %}\nSELECT 1\n"


def jinja_ok(rng: Rng, text: str) -> str:
    kind = rng.choice(["set", "for", "if", "comment", "ifelse", "ifelse", "ifelse"])
    if kind == "ifelse":
        # the branch that is NOT rendered is linted through an alternate template variant; it holds
        # several violations at one and the same position (implicit + unused alias)
        return (
            text.rstrip("\n")
            + "\n;\n\n{% if true %}\nSELECT a\nFROM tbl\n{% else %}\nSELECT c.a\nFROM tbl_c c, tbl_d d\n{% endif %}\n"
        )
    if kind == "set":
        pre = "{% set colname = 'a' %}\n"
        return pre + text.rstrip("\n") + "\n;\n\nSELECT {{ colname }}\nFROM tbl\n"
    if kind == "for":
        return (
            text.rstrip("\n")
            + "\n;\n\nSELECT\n    {% for c in ['a', 'b'] %}\n        {{ c }},\n    {% endfor %}\n    z\nFROM tbl\n"
        )
    if kind == "if":
        return text.rstrip("\n") + "\n;\n\nSELECT a\nFROM tbl\n{% if true %}\n    WHERE a > 1\n{% endif %}\n"
    return "{# a jinja comment #}\n" + text


# ---------------------------------------------------------------------------
# file bodies
# ---------------------------------------------------------------------------

KINDS = ["clean", "fixable", "fixable", "fixable", "unfixable", "parse_err", "tmpl_undef", "tmpl_fatal", "jinja_fixable"]


def make_body(rng: Rng, kind: str, templater: str = "jinja") -> tuple[str, dict]:
    base = rng.choice(corpus("ansi"))
    if rng.chance(0.3):
        base = base.rstrip("\n") + "\n;\n\n" + rng.choice(corpus("ansi"))
    meta: dict[str, Any] = {"kind": kind, "inj": []}
    text = base

    INLINE = ["double_space", "lower_kw", "comma_space", "trailing_ws", "bad_indent"]

    def add_fixable(n: int, inline_only: bool = False) -> None:
        nonlocal text
        for _ in range(n):
            name = rng.choice(INLINE if inline_only else sorted(FIXABLE))
            t2 = FIXABLE[name](rng, text)
            if t2 is not None and t2 != text:
                text = t2
                meta["inj"].append(name)

    def add_noqa() -> None:
        # an inline suppression on one code line (it may or may not sit on a line with a violation)
        nonlocal text
        lines = text.split("\n")
        cands = _code_lines(text)
        if cands:
            i = rng.choice(cands)
            lines[i] = lines[i].rstrip() + "  " + rng.choice(["-- noqa", "-- noqa: LT01", "-- noqa: CP01,LT01", "-- noqa: disable=LT01", "-- noqa: PRS"])
            text = "\n".join(lines)
            meta["noqa"] = True

    if kind == "clean":
        if rng.chance(0.15):
            add_noqa()
    elif kind == "fixable":
        add_fixable(rng.randint(1, 3))
        if rng.chance(0.25):
            add_noqa()
    elif kind == "unfixable":
        text = inj_unfixable(rng, text)
        if rng.chance(0.5):
            add_fixable(1)
    elif kind == "parse_err":
        add_fixable(rng.randint(1, 2), inline_only=True)
        text = brk_parse(rng, text)
        sup = rng.choice(["none", "none", "noqa", "noqa_all"])
        if sup == "noqa":
            lines = text.rstrip("\n").split("\n")
            lines[-1] += "  -- noqa: PRS"
            text = "\n".join(lines) + "\n"
        elif sup == "noqa_all":
            lines = text.rstrip("\n").split("\n")
            lines[-1] += "  -- noqa"
            text = "\n".join(lines) + "\n"
        meta["suppress"] = sup
    elif kind == "tmpl_undef":
        add_fixable(rng.randint(1, 2), inline_only=True)
        text = brk_tmpl_undefined(rng, text)
    elif kind == "tmpl_fatal":
        add_fixable(rng.randint(1, 2), inline_only=True)
        text = brk_tmpl_fatal(rng, text)
    elif kind == "jinja_fixable":
        add_fixable(rng.randint(1, 2))
        text = jinja_ok(rng, text)
    elif kind == "rulecase":
        cases = rule_cases()
        if cases:
            c = rng.choice(cases)
            text = c["sql"] if c["sql"].endswith("\n") or rng.chance(0.3) else c["sql"] + "\n"
            meta["case"] = c["name"]
            if c["dialect"] and c["dialect"] != "ansi":
                meta["inline"] = "-- sqlfluff:dialect:" + c["dialect"]
                text = meta["inline"] + "\n" + text
        else:
            add_fixable(rng.randint(1, 2))
    elif kind == "cte_multi":
        # several CTEs whose closing brackets each break the same layout rule
        n = rng.randint(2, 4)
        ctes = []
        for i in range(n):
            ctes.append("cte%d AS (\n    SELECT %d AS c%d)" % (i, i, i))
        text = "WITH " + ", ".join(ctes) + "\n\nSELECT c0\nFROM cte0\n"
        if rng.chance(0.4):
            add_fixable(1)
    else:
        raise ValueError(kind)
    return text, meta


INLINE_DIRECTIVES = [
    "-- sqlfluff:exclude_rules:LT01,CP01",
    "-- sqlfluff:rules:LT01,LT12,CP01",
    "-- sqlfluff:max_line_length:30",
    "-- sqlfluff:rules:capitalisation.keywords:capitalisation_policy:lower",
    "-- sqlfluff:rules:capitalisation.keywords:capitalisation_policy:upper",
    "-- sqlfluff:indentation:tab_space_size:2",
    "-- sqlfluff:layout:type:comma:line_position:leading",
    "-- sqlfluff:dialect:bigquery",
    "-- sqlfluff:dialect:postgres",
    "-- sqlfluff:disable_noqa_except:LT01",
    "-- sqlfluff:disable_noqa:True",
]


def add_inline(rng: Rng, text: str, meta: dict) -> str:
    """Prepend an in-file config directive (first line, or after a comment line)."""
    d = rng.choice(INLINE_DIRECTIVES)
    meta["inline"] = d
    if rng.chance(0.5):
        meta["inline_line"] = 2
        return "-- header comment\n" + d + "\n" + text
    meta["inline_line"] = 1
    return d + "\n" + text


def encode_body(rng: Rng, text: str, encoding: str, newline: str) -> bytes:
    if newline == "crlf":
        text = text.replace("\n", "\r\n")
    elif newline == "cr":
        text = text.replace("\n", "\r")
    elif newline == "mixed":
        parts = text.split("\n")
        out = []
        for i, p in enumerate(parts[:-1]):
            out.append(p + rng.choice(["\n", "\r\n"]))
        out.append(parts[-1])
        text = "".join(out)
    if encoding == "utf-16-le-bom":
        return b"\xff\xfe" + text.encode("utf-16-le")
    if encoding == "utf-16-be-bom":
        return b"\xfe\xff" + text.encode("utf-16-be")
    return text.encode(encoding)


# ---------------------------------------------------------------------------
# worlds
# ---------------------------------------------------------------------------


def b64(b: bytes) -> str:
    return base64.b64encode(b).decode("ascii")


def unb64(s: str) -> bytes:
    return base64.b64decode(s)


def ini(sections: dict) -> bytes:
    out = []
    for sec, kv in sections.items():
        out.append("[%s]" % sec)
        for k, v in kv.items():
            out.append("%s = %s" % (k, v))
        out.append("")
    return "\n".join(out).encode()


def gen_fix_world(rng: Rng, feats: Optional[dict] = None) -> dict:
    """Project with 1-3 dirs, 3-10 SQL files of mixed kinds."""
    f = {
        "min_files": 3,
        "max_files": 8,
        "kinds": KINDS,
        "subdirs": True,
        "nested_cfg": True,
        "ignore_file": True,
        "modes": [0o644, 0o644, 0o600, 0o755, 0o640],
        "encodings": ["utf-8"],
        "newlines": ["lf"],
        "runaway": [10, 10, 2, 1],
        "templater": ["jinja", "jinja", "jinja", "raw", "placeholder"],
        "size_limits": False,
        "suffix": ["", "", "_fixed"],
        "inline": 0.2,
    }
    if feats:
        f.update(feats)
    files: dict[str, dict] = {}
    meta: dict[str, dict] = {}
    dirs = [""]
    if f["subdirs"]:
        for d in rng.sample(["models", "staging", "marts/core", "x"], rng.randint(0, 2)):
            dirs.append(d)
    templater = rng.choice(f["templater"])
    root_core: dict[str, Any] = {"dialect": "ansi", "templater": templater}
    runaway = rng.choice(f["runaway"])
    if runaway != 10:
        root_core["runaway_limit"] = runaway
    if rng.chance(0.25):
        root_core["max_line_length"] = rng.choice([40, 60, 120])
    sup_cfg = rng.choice(["none", "none", "none", "ignore_parsing", "ignore_templating", "warn_prs"])
    if sup_cfg == "ignore_parsing":
        root_core["ignore"] = "parsing"
    elif sup_cfg == "ignore_templating":
        root_core["ignore"] = "templating"
    elif sup_cfg == "warn_prs":
        root_core["warnings"] = "PRS"
    cfg_sections: dict[str, dict] = {"sqlfluff": root_core}
    if rng.chance(0.3):
        cfg_sections["sqlfluff:rules:references.consistent"] = {"force_enable": "True"}
    f.setdefault("nested_templater", 0.0)
    nested_tmpl = templater in ("placeholder", "jinja") and bool(f["nested_templater"]) and rng.chance(f["nested_templater"])
    if templater == "placeholder":
        # (param_style and param_regex exclude each other and a nested file cannot unset a key: where
        # directories bring their own pattern, the root states its colon style as a pattern too)
        cfg_sections["sqlfluff:templater:placeholder"] = {"param_regex": r"(?<![:\w]):(?P<param_name>\w+)"} if nested_tmpl else {"param_style": "colon"}
    limits: dict[str, Any] = {}
    if f["size_limits"]:
        limits = gen_limits(rng)
        root_core.update(limits.get("root", {}))
    files["proj/.sqlfluff"] = {"b64": b64(ini(cfg_sections)), "mode": 0o644}
    nested: dict[str, dict] = {}
    f.setdefault("bait", 0.0)
    f.setdefault("jinja_loader", 0.0)
    loader = bool(f["jinja_loader"]) and templater == "jinja" and rng.chance(f["jinja_loader"])
    if loader:
        # macros loaded from a directory + templates pulled in through the Jinja loader
        # ({% include %} / {% import %}): the templater reads OTHER files of the project
        cfg_sections["sqlfluff:templater:jinja"] = {"load_macros_from_path": "_macros", "loader_search_path": "_partials"}
        files["proj/.sqlfluff"] = {"b64": b64(ini(cfg_sections)), "mode": 0o644}
        files["proj/_macros/vsim_macros.sql"] = {"b64": b64(b"{% macro vsim_col(name) %}{{ name }} AS {{ name }}_alias{% endmacro %}\n"), "mode": 0o644}
        files["proj/_partials/part.sql"] = {"b64": b64(b"a AS part_col"), "mode": 0o644}
        files["proj/_partials/lib.sql"] = {"b64": b64(b"{% macro lib_tbl() %}tbl{% endmacro %}\n"), "mode": 0o644}
    if f["nested_cfg"]:
        for d in dirs[1:]:
            if rng.chance(0.5):
                sec: dict[str, Any] = {}
                if rng.chance(0.5):
                    sec["dialect"] = rng.choice(["postgres", "bigquery", "snowflake", "ansi"])
                if rng.chance(0.4):
                    sec["exclude_rules"] = rng.choice(["LT01", "CP01", "LT12", "LT02"])
                if rng.chance(0.3):
                    sec["rules"] = rng.choice(["LT01,LT12,CP01", "core", "LT02,LT01"])
                if rng.chance(0.3):
                    sec["max_line_length"] = rng.choice([30, 50, 200])
                if rng.chance(0.15):
                    sec["ignore_templated_areas"] = "False"
                if rng.chance(0.12):
                    sec["disable_noqa_except"] = rng.choice(["CP01", "LT*", "PRS"])
                if limits and rng.chance(0.7):
                    sec.update(limits.get("nested", {}))
                if sec:
                    nested[d] = sec
                    files["proj/%s/.sqlfluff" % d] = {"b64": b64(ini({"sqlfluff": sec})), "mode": 0o644}
    n = rng.randint(f["min_files"], f["max_files"])
    names = ["a", "b", "c", "d", "e", "f", "g", "h", "i", "j", "k", "m"]
    rng.shuffle(names)
    for i in range(n):
        d = rng.choice(dirs)
        kind = rng.choice(f["kinds"])
        if templater != "jinja" and kind in ("tmpl_undef", "tmpl_fatal", "jinja_fixable"):
            kind = "fixable"
        text, m = make_body(rng, kind, templater)
        if loader and kind in ("clean", "fixable", "jinja_fixable") and rng.chance(0.8):
            use = rng.choice(["macro", "include", "import"])
            m["loader"] = use
            if use == "macro":
                text = text.rstrip("\n") + "\n;\n\nSELECT {{ vsim_col('b') }}\nFROM tbl\n"
            elif use == "include":
                text = text.rstrip("\n") + "\n;\n\nSELECT {% include 'part.sql' %}\nFROM tbl\n"
            else:
                text = "{% from 'lib.sql' import lib_tbl %}\n" + text.rstrip("\n") + "\n;\n\nSELECT a\nFROM {{ lib_tbl() }}\n"
        if f["inline"] and kind in ("clean", "fixable", "unfixable", "cte_multi") and rng.chance(f["inline"]):
            text = add_inline(rng, text, m)
        enc = rng.choice(f["encodings"])
        nl = rng.choice(f["newlines"])
        data = encode_body(rng, text, enc, nl)
        ext = ".sql" if rng.chance(0.9) else ".SQL"
        rel = "proj/" + (d + "/" if d else "") + names[i] + ext
        m.update({"encoding": enc, "newline": nl, "dir": d, "chars": len(text), "bytes": len(data)})
        files[rel] = {"b64": b64(data), "mode": rng.choice(f["modes"])}
        meta[rel] = m
    f.setdefault("feu", 0.0)
    if f["feu"] and rng.chance(f["feu"]):
        # fix_even_unparsable switched on for ONE directory (nested config) or ONE file (inline directive)
        # only: whatever that means for the opted-in files, it must not open the gate for any other file
        sub = [d for d in dirs[1:] if any(m_["dir"] == d for m_ in meta.values())]
        if sub and rng.chance(0.5):
            d = rng.choice(sub)
            nested.setdefault(d, {})["fix_even_unparsable"] = "True"
            files["proj/%s/.sqlfluff" % d] = {"b64": b64(ini({"sqlfluff": nested[d]})), "mode": 0o644}
            for rel_, m_ in meta.items():
                if m_["dir"] == d or m_["dir"].startswith(d + "/"):
                    m_["feu"] = True
        else:
            rel_ = rng.choice(sorted(meta))
            m_ = meta[rel_]
            if m_.get("encoding", "utf-8") == "utf-8" and m_.get("newline", "lf") == "lf":
                data_ = b"-- sqlfluff:fix_even_unparsable:True\n" + unb64(files[rel_]["b64"])
                files[rel_]["b64"] = b64(data_)
                m_["feu"] = True
                m_["bytes"] = len(data_)
    bait = None
    if f["bait"] and rng.chance(f["bait"]):
        # "latch bait": two files whose violations depend on a per-file fact that is NOT part of
        # the rule configuration (the dialect; core ignore_templated_areas) while sharing the
        # rule configuration: anything that carries rule/linter state from one file to the next
        # shows up as a difference between "among others" and "alone".
        free = [x for x in names[n:]] or ["y", "z"]
        bait = rng.choice(["struct", "templated"]) if templater == "jinja" else "struct"
        if bait == "struct":
            cfg_sections["sqlfluff:rules:references.consistent"] = {"force_enable": "True"}
            files["proj/.sqlfluff"] = {"b64": b64(ini(cfg_sections)), "mode": 0o644}
            sd = rng.choice(["bigquery", "bigquery", "hive", "redshift", "athena"])
            pol = "-- sqlfluff:dialect:%s\nSELECT\n    t.payload.user_id,\n    t.payload.country\nFROM t\n" % sd
            vic = rng.choice(["SELECT\n    a,\n    foo.b\nFROM tbl\n", "SELECT my_tbl.bar, baz FROM my_tbl\n", "SELECT\n    tbl.a,\n    b\nFROM tbl\nWHERE c > 1\n"])
            bodies = [(pol, {"kind": "bait_polluter", "inj": [], "inline": "-- sqlfluff:dialect:" + sd, "inline_line": 1, "dir": ""}),
                      (vic, {"kind": "bait_victim", "inj": [], "dir": ""})]
        else:
            bd = "tpl"
            dirs.append(bd)
            nested[bd] = {"ignore_templated_areas": "False"}
            files["proj/%s/.sqlfluff" % bd] = {"b64": b64(ini({"sqlfluff": nested[bd]})), "mode": 0o644}
            body = "{{ \"select\" }} a\nFROM tbl\nWHERE a > 1\n"
            bodies = [(body, {"kind": "bait_polluter", "inj": [], "dir": bd}), (body, {"kind": "bait_victim", "inj": [], "dir": ""})]
        rng.shuffle(free)
        for (text, m), nm in zip(bodies, free):
            rel = "proj/" + (m["dir"] + "/" if m["dir"] else "") + nm + ".sql"
            data = text.encode("utf-8")
            m.update({"encoding": "utf-8", "newline": "lf", "chars": len(text), "bytes": len(data)})
            files[rel] = {"b64": b64(data), "mode": 0o644}
            meta[rel] = m
    if nested_tmpl:
        # templater SETTINGS that differ per directory (nested config files): two directories, each with
        # its own placeholder pattern / its own value of one Jinja context variable, and in each one or two
        # files whose result depends on it. Whatever a templater (one instance per Linter) keeps from the
        # first file's settings meets a file with other settings.
        if templater == "placeholder":
            variants = [(r"__(?P<param_name>[\w_]+)__", "SELECT a, b\nFROM __tbl__\nWHERE a > 1\n"),
                        (r"\$\{(?P<param_name>\w+)\}", "SELECT a, b\nFROM ${tbl}\nWHERE a > 1\n"),
                        (r"<<(?P<param_name>\w+)>>", "SELECT a, b\nFROM <<tbl>>\nWHERE a > 1\n"),
                        (r"@(?P<param_name>\w+)@", "SELECT a, b\nFROM @tbl@\nWHERE a > 1\n")]
            picks = rng.sample(variants, 2)
            secs = [({"sqlfluff:templater:placeholder": {"param_regex": rx}}, body) for rx, body in picks]
        else:
            body = "SELECT a\n{{ vsim_kw }} tbl\nWHERE a > 1\n"
            vals = rng.sample(["from", "FROM", "From"], 2)
            secs = [({"sqlfluff:templater:jinja:context": {"vsim_kw": v}}, body) for v in vals]
        free = [x for x in ["n1", "n2", "n3", "n4", "n5"]]
        for (sec, body), nd in zip(secs, ["nt_a", "nt_b"]):
            dirs.append(nd)
            files["proj/%s/.sqlfluff" % nd] = {"b64": b64(ini(sec)), "mode": 0o644}
            for _ in range(rng.randint(1, 2)):
                text = body if rng.chance(0.6) else body.replace("a, b", "a,b").replace("SELECT a\n", "SELECT  a\n")
                rel = "proj/%s/%s.sql" % (nd, free.pop(0))
                data = text.encode("utf-8")
                files[rel] = {"b64": b64(data), "mode": 0o644}
                meta[rel] = {"kind": "nested_tmpl", "inj": [], "dir": nd, "encoding": "utf-8", "newline": "lf", "chars": len(text), "bytes": len(data)}
    if f["ignore_file"] and rng.chance(0.3):
        sqls = sorted(meta)
        victim = rng.choice(sqls)
        pat = os.path.relpath(victim, "proj")
        files["proj/.sqlfluffignore"] = {"b64": b64((pat + "\n").encode()), "mode": 0o644}
        meta[victim]["ignored"] = True
    return {
        "files": files,
        "dirs": ["home/u", "proj"] + ["proj/" + d for d in dirs[1:]] + (["proj/_macros", "proj/_partials"] if loader else []),
        "cwd": "proj",
        "meta": meta,
        "cfg": {
            "templater": templater,
            "runaway_limit": runaway,
            "suppress_cfg": sup_cfg,
            "nested": nested,
            "limits": limits,
            "root_core": root_core,
            "sections": cfg_sections,
            "bait": bait,
        },
        "suffix": rng.choice(f["suffix"]),
    }


def gen_limits(rng: Rng) -> dict:
    out: dict[str, Any] = {"root": {}, "nested": {}}
    mode = rng.choice(["byte", "byte", "char", "both"])
    if mode in ("byte", "both"):
        out["root"]["large_file_skip_byte_limit"] = rng.choice([60, 120, 200, 400])
        out["nested"]["large_file_skip_byte_limit"] = rng.choice([0, 50, 150, 1000])
    else:
        out["root"]["large_file_skip_byte_limit"] = 0
    if mode in ("char", "both"):
        out["root"]["large_file_skip_char_limit"] = rng.choice([60, 120, 200, 400, 0])
        # the char limit, too, is a per-file setting: a nested config may lower, raise or disable it
        out["nested"]["large_file_skip_char_limit"] = rng.choice([0, 50, 150, 1000])
    if rng.chance(0.5):
        out["root"]["large_file_skip_fail"] = rng.choice(["True", "False"])
    return out


def world_tree(world: dict) -> dict:
    """-> {rel: (bytes|None, mode)} suitable for seams.write_tree."""
    tree: dict[str, Any] = {}
    for d in world.get("dirs", []):
        tree[d.rstrip("/") + "/"] = (None, 0o755)
    for rel, fobj in world["files"].items():
        tree[rel] = (unb64(fobj["b64"]), fobj["mode"])
    return tree


def sql_files(world: dict) -> list[str]:
    return sorted(world["meta"])
