"""One integer decides everything: seeded streams, named forks, choice tape.

No real clock, no os.urandom, no hash()-dependent iteration anywhere here.
"""

from __future__ import annotations

import hashlib
import random
from typing import Any, Optional, Sequence


def h64(*parts: Any) -> int:
    """Stable 64-bit hash of the repr of the parts (never Python's hash())."""
    m = hashlib.sha256()
    for p in parts:
        m.update(repr(p).encode("utf-8", "surrogatepass"))
        m.update(b"\x00")
    return int.from_bytes(m.digest()[:8], "big")


def sha(data: Any) -> str:
    if isinstance(data, str):
        data = data.encode("utf-8", "surrogatepass")
    elif not isinstance(data, (bytes, bytearray)):
        data = repr(data).encode("utf-8", "surrogatepass")
    return hashlib.sha256(data).hexdigest()


class Rng:
    """A named-fork PRNG tree. fork(label) never perturbs the parent stream."""

    def __init__(self, seed: int, path: str = "") -> None:
        self.seed = seed
        self.path = path
        self._r = random.Random(h64("vsim", seed, path))

    def fork(self, label: str) -> "Rng":
        return Rng(self.seed, self.path + "/" + label)

    # draws -------------------------------------------------------------
    def randrange(self, n: int) -> int:
        return self._r.randrange(n) if n > 1 else 0

    def randint(self, a: int, b: int) -> int:
        return self._r.randint(a, b)

    def random(self) -> float:
        return self._r.random()

    def chance(self, p: float) -> bool:
        return self._r.random() < p

    def choice(self, seq: Sequence[Any]) -> Any:
        return seq[self._r.randrange(len(seq))]

    def sample(self, seq: Sequence[Any], k: int) -> list:
        return self._r.sample(list(seq), k)

    def shuffle(self, lst: list) -> None:
        self._r.shuffle(lst)

    def subset(self, seq: Sequence[Any], p: float = 0.5) -> list:
        return [x for x in seq if self._r.random() < p]

    def weighted(self, pairs: Sequence[tuple]) -> Any:
        """pairs = [(item, weight), ...]."""
        tot = sum(w for _, w in pairs)
        x = self._r.random() * tot
        acc = 0.0
        for item, w in pairs:
            acc += w
            if x < acc:
                return item
        return pairs[-1][0]

    def bytes(self, n: int) -> bytes:
        return bytes(self._r.randrange(256) for _ in range(n))


class Chooser:
    """Every scheduling / fault-timing decision of a run goes through pick().

    search mode: draws from the stream, appends to the tape.
    replay mode: reads the tape; past its end the choice is 0.
    The tape (not the seed) is what a replay file carries, so minimised tapes
    that no PRNG value would regenerate still replay exactly.
    """

    def __init__(self, rng: Optional[Rng] = None, tape: Optional[list] = None):
        self.replay = tape is not None
        self.rng = rng
        self.tape_in = list(tape) if tape is not None else []
        self.pos = 0
        self.tape: list[int] = []
        self.labels: list[str] = []

    def pick(self, label: str, n: int) -> int:
        if n <= 1:
            return 0
        if self.replay:
            c = self.tape_in[self.pos] if self.pos < len(self.tape_in) else 0
            self.pos += 1
            c = c % n
        else:
            assert self.rng is not None
            c = self.rng.randrange(n)
        self.tape.append(c)
        self.labels.append(label)
        return c

    def chance(self, label: str, p: float, denom: int = 1000) -> bool:
        """Bernoulli through the tape (so it shrinks towards 'no')."""
        k = int(round(p * denom))
        if k <= 0:
            return False
        c = self.pick(label, denom)
        # low tape values mean 'no' so that a zeroed tape is the quiet run
        return c >= denom - k
