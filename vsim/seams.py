"""The file-system seam: journalled, fault-injectable disk under a world root.

Installed inside a node process. Everything sqlfluff and the stdlib do to
paths *inside the world root* goes through here (builtins.open / io.open,
os.open/stat/lstat/fsync/chmod/rename/replace/unlink/remove/listdir/scandir/
mkdir/rmdir/utime). Paths outside the root pass straight through.

The bytes live in a real (tmpfs) directory; this layer owns mutation,
faults, listing order and the durability shadow model.
"""

from __future__ import annotations

import builtins
import errno as _errno
import io
import os
import stat as _stat
import sys
from collections import Counter
from typing import Any, Callable, Optional


class SimCrash(BaseException):
    """Simulated process death (kill -9 / power loss). Not an Exception."""


MUTATING = {
    "create",
    "open_w",
    "write",
    "truncate",
    "chmod",
    "rename",
    "unlink",
    "mkdir",
    "rmdir",
    "utime",
}

# errnos that make sense per op class (used by enumeration)
ERRNOS_BY_CLASS = {
    "stat": ["EACCES", "EIO"],
    "create": ["EACCES", "ENOSPC", "EMFILE", "EROFS", "EDQUOT", "EEXIST"],
    "open_w": ["EACCES", "ENOSPC", "EMFILE", "EROFS", "EBUSY"],
    "open_r": ["EACCES", "EIO", "EMFILE", "ENOENT"],
    "write": ["ENOSPC", "EIO", "EDQUOT", "EFBIG"],
    "fsync": ["EIO", "ENOSPC"],
    "close": ["EIO", "ENOSPC"],
    "chmod": ["EPERM", "EROFS", "EIO"],
    "rename": ["EACCES", "EPERM", "EBUSY", "EXDEV", "ENOSPC", "EIO", "EROFS"],
    "unlink": ["EACCES", "EPERM", "EBUSY", "EIO", "EROFS"],
    "utime": ["EPERM"],
    "listdir": ["EACCES", "EIO"],
    "scandir": ["EACCES", "EIO"],
}

_real = {
    "open": builtins.open,
    "os.open": os.open,
    "os.stat": os.stat,
    "os.lstat": os.lstat,
    "os.fsync": os.fsync,
    "os.chmod": os.chmod,
    "os.rename": os.rename,
    "os.replace": os.replace,
    "os.unlink": os.unlink,
    "os.remove": os.remove,
    "os.listdir": os.listdir,
    "os.scandir": os.scandir,
    "os.mkdir": os.mkdir,
    "os.rmdir": os.rmdir,
    "os.utime": os.utime,
    "os.truncate": os.truncate,
    "os.link": os.link,
    "os.symlink": os.symlink,
}


def real_open(*a: Any, **k: Any):
    return _real["open"](*a, **k)


def real_read(path: str) -> bytes:
    with _real["open"](path, "rb") as f:
        return f.read()


class Shadow:
    """Durability model on top of the real directory.

    Namespace journal (ordered metadata): create / rename / unlink / chmod /
    mkdir. Data: an inode is *dirty* from a write/truncate until the next
    fsync; fsync snapshots the real bytes as the durable content.
    """

    def __init__(self) -> None:
        self.ns: list[tuple] = []  # (opidx, kind, a, b)
        self.ino_ids: dict[int, str] = {}
        self.durable: dict[str, Optional[bytes]] = {}  # ino id -> bytes at last fsync
        self.dirty: dict[str, bool] = {}
        self.preexisting: set[str] = set()
        self.ns_durable_upto = 0  # ns ops forced durable by an fsync (knob)
        self.initial_path: dict[str, str] = {}
        self.write_offsets: dict[str, list[int]] = {}

    def ino(self, st_ino: int) -> str:
        if st_ino not in self.ino_ids:
            self.ino_ids[st_ino] = "i%d" % len(self.ino_ids)
        return self.ino_ids[st_ino]

    def note_existing(self, path: str) -> Optional[str]:
        """Called before the first mutation of an already existing file."""
        try:
            st = _real["os.stat"](path)
        except OSError:
            return None
        if not _stat.S_ISREG(st.st_mode):
            return None
        i = self.ino(st.st_ino)
        if i not in self.durable:
            self.durable[i] = real_read(path)
            self.dirty[i] = False
            self.preexisting.add(i)
            self.initial_path[i] = path
        return i

    def created(self, st_ino: int) -> str:
        i = self.ino(st_ino)
        if i not in self.durable:
            self.durable[i] = None  # never synced: no durable data at all
            self.dirty[i] = True
        return i


class ShortReadRaw(io.RawIOBase):
    """Read-only raw file whose every read returns at most `chunk` bytes."""

    def __init__(self, fio: io.FileIO, chunk: int) -> None:
        super().__init__()
        self._fio = fio
        self._chunk = max(1, chunk)
        self.name = fio.name
        self.mode = "rb"

    def readable(self) -> bool:
        return True

    def seekable(self) -> bool:
        return True

    def seek(self, pos: int, whence: int = 0) -> int:
        return self._fio.seek(pos, whence)

    def tell(self) -> int:
        return self._fio.tell()

    def fileno(self) -> int:
        return self._fio.fileno()

    def readinto(self, b: Any) -> int:
        mv = memoryview(b)
        data = self._fio.read(min(len(mv), self._chunk))
        n = len(data or b"")
        mv[:n] = data or b""
        return n

    def close(self) -> None:
        if not self.closed:
            try:
                self._fio.close()
            finally:
                super().close()


class SimRaw(io.RawIOBase):
    """Our raw layer under the stdlib's real BufferedWriter/TextIOWrapper."""

    def __init__(self, disk: "Disk", fio: io.FileIO, path: str, ino: str):
        super().__init__()
        self._disk = disk
        self._f = fio
        self._path = path
        self._ino = ino
        self.name = path
        self.mode = fio.mode

    # plumbing -----------------------------------------------------------
    def fileno(self) -> int:
        return self._f.fileno()

    def writable(self) -> bool:
        return self._f.writable()

    def readable(self) -> bool:
        return self._f.readable()

    def seekable(self) -> bool:
        return self._f.seekable()

    def seek(self, *a: Any) -> int:
        return self._f.seek(*a)

    def tell(self) -> int:
        return self._f.tell()

    def isatty(self) -> bool:
        return False

    def readinto(self, b: Any) -> Optional[int]:
        return self._f.readinto(b)

    def truncate(self, size: Optional[int] = None) -> int:
        d = self._disk
        d.op("truncate", self._path, size=size)
        d.shadow.dirty[self._ino] = True
        return self._f.truncate(size)

    def write(self, b: Any) -> int:
        d = self._disk
        data = bytes(b)
        f = d.op("write", self._path, n=len(data))
        if f is not None:
            kind = f["kind"]
            if kind == "short" and len(data) > 1:
                n = max(1, min(len(data) - 1, int(f.get("bytes", len(data) // 2))))
                d.fired["short"] += 1
                d.shadow.dirty[self._ino] = True
                return self._f.write(data[:n])
            if kind == "eintr":
                d.fired["eintr"] += 1
                raise InterruptedError(_errno.EINTR, "Interrupted system call")
            if kind in ("kill_mid", "power_mid"):
                n = max(0, min(len(data), int(f.get("bytes", len(data) // 2))))
                if n:
                    self._f.write(data[:n])
                    d.shadow.dirty[self._ino] = True
                d.die(kind)
            if kind == "err_after":
                self._f.write(data)
                d.shadow.dirty[self._ino] = True
                d.fired["err_after"] += 1
                raise OSError(_errno.EIO, "Input/output error (after write)")
        d.shadow.dirty[self._ino] = True
        if d.rawmax and len(data) > d.rawmax:
            data = data[: d.rawmax]  # a raw write may always be short
        return self._f.write(data)

    def close(self) -> None:
        if self.closed:
            return
        d = self._disk
        try:
            if d.dead:
                raise SimCrash()
            f = d.op("close", self._path)
        finally:
            # closing an fd never changes stored bytes: always release it
            fd = None
            try:
                fd = self._f.fileno()
            except Exception:
                pass
            d.fds.pop(fd, None)
            try:
                self._f.close()
            finally:
                super().close()
        if f is not None and f["kind"] == "err_after":
            d.fired["err_after"] += 1
            raise OSError(_errno.EIO, "Input/output error (on close)")


class _ScandirWrap:
    def __init__(self, entries: list) -> None:
        self._it = iter(entries)

    def __iter__(self) -> "_ScandirWrap":
        return self

    def __next__(self) -> Any:
        return next(self._it)

    def __enter__(self) -> "_ScandirWrap":
        return self

    def __exit__(self, *a: Any) -> None:
        self.close()

    def close(self) -> None:
        self._it = iter(())


class Disk:
    """Journal + fault plan + shadow for one node."""

    def __init__(
        self,
        root: str,
        node: str = "n0",
        bufsize: int = 8192,
        listing: str = "sorted",
        pick: Optional[Callable[[str, int], int]] = None,
        fsync_persists_dirent: bool = True,
        journal_reads: bool = True,
        rawmax: int = 0,
    ) -> None:
        self.root = root.rstrip("/")
        self.rootslash = self.root + "/"
        self.node = node
        self.bufsize = bufsize
        self.listing = listing
        self.pick = pick
        self.fsync_persists_dirent = fsync_persists_dirent
        self.journal_reads = journal_reads
        self.rawmax = rawmax
        self.installed = False
        self.fds: dict[int, SimRaw] = {}
        self.fdpath: dict[int, tuple[str, str]] = {}
        self.reset()

    # -- per-execution state ---------------------------------------------
    def reset(self, plan: Optional[list] = None) -> None:
        self.journal: list[list] = []
        self.opcount = 0
        self.plan: list[dict] = [dict(p) for p in (plan or [])]
        self.dead = False
        self.death: Optional[str] = None
        self.death_at: Optional[int] = None
        self.fired: Counter = Counter()
        self.shadow = Shadow()
        self.class_counts: Counter = Counter()
        self.enabled = True

    # -- helpers ----------------------------------------------------------
    def rel(self, path: str) -> str:
        if path.startswith(self.rootslash):
            return path[len(self.rootslash) :]
        if path == self.root:
            return "."
        return path

    def inroot(self, path: Any) -> Optional[str]:
        """Absolute path string if inside the world root, else None."""
        if not self.enabled or isinstance(path, int):
            return None
        try:
            s = os.fspath(path)
        except TypeError:
            return None
        if isinstance(s, bytes):
            try:
                s = os.fsdecode(s)
            except Exception:
                return None
        if s.startswith("/"):
            if not s.startswith(self.rootslash) and s != self.root:
                return None
            a = os.path.normpath(s)
        else:
            try:
                cwd = os.getcwd()
            except OSError:
                return None
            if not (cwd.startswith(self.rootslash) or cwd == self.root):
                # relative path from outside the world
                a = os.path.normpath(os.path.join(cwd, s))
            else:
                a = os.path.normpath(os.path.join(cwd, s))
        if a == self.root or a.startswith(self.rootslash):
            return a
        return None

    def die(self, kind: str) -> None:
        self.dead = True
        self.death = kind
        self.death_at = self.opcount - 1
        self.fired[kind] += 1
        self.journal.append([self.opcount, "DEATH", kind, {}])
        raise SimCrash(kind)

    def _match(self, k: int, cls: str, relpath: str) -> Optional[dict]:
        nth = self.class_counts[cls]
        self.class_counts[cls] += 1
        for f in self.plan:
            if f.get("_used"):
                continue
            if "at" in f:
                if f["at"] != k:
                    continue
            else:
                if f.get("cls") != cls:
                    continue
                pm = f.get("path")
                if pm is not None and pm not in relpath:
                    continue
                if "nth" in f:
                    # nth op of that class (on matching path)
                    key = "_seen"
                    seen = f.get(key, 0)
                    f[key] = seen + 1
                    if seen != f["nth"]:
                        continue
            if not f.get("repeat"):
                f["_used"] = True
            return f
        return None

    def op(self, cls: str, path: str, **info: Any) -> Optional[dict]:
        """Journal an intercepted op; apply pre-op faults; return post-op fault."""
        if self.dead:
            raise SimCrash(self.death or "dead")
        k = self.opcount
        self.opcount += 1
        relpath = self.rel(path)
        ev = [k, cls, relpath, info]
        self.journal.append(ev)
        f = self._match(k, cls, relpath) if self.plan else None
        if f is None:
            return None
        kind = f["kind"]
        ev.append({"fault": kind, **({"errno": f["errno"]} if "errno" in f else {})})
        if kind == "err":
            self.fired["err"] += 1
            self.fired["err:" + f["errno"]] += 1
            code = getattr(_errno, f["errno"])
            raise OSError(code, os.strerror(code), path)
        if kind in ("kill", "power"):
            self.die(kind)
        return f

    # -- interceptors ------------------------------------------------------
    def w_open(
        self,
        file: Any,
        mode: str = "r",
        buffering: int = -1,
        encoding: Optional[str] = None,
        errors: Optional[str] = None,
        newline: Optional[str] = None,
        closefd: bool = True,
        opener: Optional[Callable] = None,
    ):
        p = self.inroot(file)
        if p is None:
            return _real["open"](
                file, mode, buffering, encoding, errors, newline, closefd, opener
            )
        writing = any(c in mode for c in "wax+")
        if not writing:
            rf = None
            if self.journal_reads:
                rf = self.op("open_r", p)
            elif self.dead:
                raise SimCrash()
            if rf is not None and rf.get("kind") == "short_read" and opener is None:
                # short reads: every raw read() of this file returns at most `bytes` bytes (legal for
                # raw I/O; the stdlib's buffered / text layers and readall() loop, a single unbuffered
                # read(n) that is taken for the whole file does not)
                self.fired["short_read"] += 1
                raw = ShortReadRaw(io.FileIO(file, "r"), int(rf.get("bytes", 16)))
                if buffering == 0:
                    if "b" not in mode:
                        raise ValueError("can't have unbuffered text I/O")
                    return raw
                buf = io.BufferedReader(raw, self.bufsize if buffering < 0 else max(buffering, 1))
                if "b" in mode:
                    return buf
                text = io.TextIOWrapper(buf, encoding, errors, newline)
                text.mode = mode
                return text
            return _real["open"](
                file, mode, buffering, encoding, errors, newline, closefd, opener
            )
        # write path: our raw layer under the real buffered/text layers
        binary = "b" in mode
        rawmode = mode.replace("b", "").replace("t", "")
        if opener is None:
            ino_pre = self.shadow.note_existing(p)
            f = self.op("open_w", p, mode=mode)
            fio = io.FileIO(p, rawmode)
            st = os.fstat(fio.fileno())
            if ino_pre is None:
                ino = self.shadow.created(st.st_ino)
                self.shadow.ns.append((self.opcount - 1, "create", self.rel(p), ino))
            else:
                ino = ino_pre
                if "w" in rawmode:
                    self.shadow.dirty[ino] = True  # O_TRUNC
            path = p
        else:
            fio = io.FileIO(file, rawmode, opener=opener)
            fd = fio.fileno()
            path, ino = self.fdpath.get(fd, (p, None))
            if ino is None:
                ino = self.shadow.created(os.fstat(fd).st_ino)
        raw = SimRaw(self, fio, path, ino)
        self.fds[fio.fileno()] = raw
        if buffering == 0:
            if not binary:
                raise ValueError("can't have unbuffered text I/O")
            return raw
        bsz = self.bufsize if buffering < 0 else max(buffering, 1)
        if "+" in rawmode:
            buf: Any = io.BufferedRandom(raw, bsz)
        else:
            buf = io.BufferedWriter(raw, bsz)
        if binary:
            return buf
        text = io.TextIOWrapper(buf, encoding, errors, newline)
        text.mode = mode
        return text

    def w_os_open(self, path: Any, flags: int, mode: int = 0o777, *, dir_fd=None):
        p = self.inroot(path) if dir_fd is None else None
        if p is None:
            if dir_fd is None:
                return _real["os.open"](path, flags, mode)
            return _real["os.open"](path, flags, mode, dir_fd=dir_fd)
        if not (flags & (os.O_WRONLY | os.O_RDWR | os.O_CREAT | os.O_TRUNC)):
            if self.journal_reads:
                self.op("open_r", p)
            return _real["os.open"](path, flags, mode)
        ino_pre = self.shadow.note_existing(p)
        self.op("create", p, excl=bool(flags & os.O_EXCL))
        fd = _real["os.open"](path, flags, mode)
        if ino_pre is None:
            ino = self.shadow.created(os.fstat(fd).st_ino)
            self.shadow.ns.append((self.opcount - 1, "create", self.rel(p), ino))
        else:
            ino = ino_pre
            if flags & os.O_TRUNC:
                self.shadow.dirty[ino] = True
        self.fdpath[fd] = (p, ino)
        return fd

    def w_stat(self, path: Any, *a: Any, **k: Any):
        p = self.inroot(path) if not a and not k.get("dir_fd") else None
        if p is not None:
            if self.journal_reads:
                self.op("stat", p)
            elif self.dead:
                raise SimCrash()
        return _real["os.stat"](path, *a, **k)

    def w_lstat(self, path: Any, *a: Any, **k: Any):
        p = self.inroot(path) if not a and not k.get("dir_fd") else None
        if p is not None:
            if self.journal_reads:
                self.op("stat", p)
            elif self.dead:
                raise SimCrash()
        return _real["os.lstat"](path, *a, **k)

    def w_fsync(self, fd: Any):
        if not isinstance(fd, int):
            fd = fd.fileno()
        raw = self.fds.get(fd)
        if raw is None:
            return _real["os.fsync"](fd)
        f = self.op("fsync", raw._path)
        _real["os.fsync"](fd)
        sh = self.shadow
        sh.durable[raw._ino] = real_read("/proc/self/fd/%d" % fd)
        sh.dirty[raw._ino] = False
        if self.fsync_persists_dirent:
            sh.ns_durable_upto = len(sh.ns)
        if f is not None and f["kind"] == "err_after":
            self.fired["err_after"] += 1
            raise OSError(_errno.EIO, "Input/output error (after fsync)")

    def w_chmod(self, path: Any, mode: int, *a: Any, **k: Any):
        p = self.inroot(path) if not a and not k else None
        if p is None:
            return _real["os.chmod"](path, mode, *a, **k)
        f = self.op("chmod", p, mode=oct(mode))
        _real["os.chmod"](path, mode)
        self.shadow.ns.append((self.opcount - 1, "chmod", self.rel(p), mode))
        if f is not None and f["kind"] == "err_after":
            self.fired["err_after"] += 1
            raise OSError(_errno.EIO, "Input/output error (after chmod)")

    def _w_rename(self, which: str, src: Any, dst: Any, **k: Any):
        ps = self.inroot(src) if not k else None
        pd = self.inroot(dst) if not k else None
        if ps is None and pd is None:
            return _real[which](src, dst, **k)
        f = self.op("rename", pd or ps, src=self.rel(ps or str(src)))
        if pd is not None:
            self.shadow.note_existing(pd)
        if ps is not None:
            self.shadow.note_existing(ps)
        _real[which](src, dst)
        self.shadow.ns.append(
            (self.opcount - 1, "rename", self.rel(ps or str(src)), self.rel(pd or str(dst)))
        )
        if f is not None and f["kind"] == "err_after":
            self.fired["err_after"] += 1
            raise OSError(_errno.EIO, "Input/output error (after rename)")

    def w_rename(self, src: Any, dst: Any, **k: Any):
        return self._w_rename("os.rename", src, dst, **k)

    def w_replace(self, src: Any, dst: Any, **k: Any):
        return self._w_rename("os.replace", src, dst, **k)

    def w_unlink(self, path: Any, **k: Any):
        p = self.inroot(path) if not k else None
        if p is None:
            return _real["os.unlink"](path, **k)
        self.op("unlink", p)
        self.shadow.note_existing(p)
        _real["os.unlink"](path)
        self.shadow.ns.append((self.opcount - 1, "unlink", self.rel(p), None))

    def w_mkdir(self, path: Any, mode: int = 0o777, **k: Any):
        p = self.inroot(path) if not k else None
        if p is None:
            return _real["os.mkdir"](path, mode, **k)
        self.op("mkdir", p)
        _real["os.mkdir"](path, mode)
        self.shadow.ns.append((self.opcount - 1, "mkdir", self.rel(p), None))

    def w_rmdir(self, path: Any, **k: Any):
        p = self.inroot(path) if not k else None
        if p is None:
            return _real["os.rmdir"](path, **k)
        self.op("rmdir", p)
        _real["os.rmdir"](path)
        self.shadow.ns.append((self.opcount - 1, "rmdir", self.rel(p), None))

    def w_utime(self, path: Any, *a: Any, **k: Any):
        p = self.inroot(path)
        if p is not None:
            self.op("utime", p)
        return _real["os.utime"](path, *a, **k)

    def w_truncate(self, path: Any, length: int):
        p = self.inroot(path)
        if p is not None:
            i = self.shadow.note_existing(p)
            self.op("truncate", p, size=length)
            if i:
                self.shadow.dirty[i] = True
        return _real["os.truncate"](path, length)

    def w_link(self, src: Any, dst: Any, **k: Any):
        pd = self.inroot(dst)
        if pd is not None:
            self.op("create", pd, link=True)
        return _real["os.link"](src, dst, **k)

    def w_symlink(self, src: Any, dst: Any, *a: Any, **k: Any):
        pd = self.inroot(dst)
        if pd is not None:
            self.op("create", pd, symlink=True)
        return _real["os.symlink"](src, dst, *a, **k)

    def _order(self, names: list, key: Callable[[Any], str], where: str) -> list:
        names = sorted(names, key=key)
        if self.listing == "shuffle" and self.pick is not None and len(names) > 1:
            out = []
            pool = list(names)
            while pool:
                out.append(pool.pop(self.pick("listing:" + where, len(pool))))
            self.fired["listing"] += 1
            return out
        if self.listing == "reverse":
            self.fired["listing"] += 1
            return names[::-1]
        return names

    def w_listdir(self, path: Any = "."):
        p = self.inroot(path)
        if p is None:
            return _real["os.listdir"](path)
        self.op("listdir", p)
        names = _real["os.listdir"](path)
        return self._order(names, lambda n: os.fsdecode(n), self.rel(p))

    def w_scandir(self, path: Any = "."):
        p = self.inroot(path)
        if p is None:
            return _real["os.scandir"](path)
        self.op("scandir", p)
        with _real["os.scandir"](path) as it:
            entries = list(it)
        return _ScandirWrap(self._order(entries, lambda e: os.fsdecode(e.name), self.rel(p)))

    # -- install / uninstall ------------------------------------------------
    def install(self) -> None:
        import shutil

        if self.installed:
            return
        builtins.open = self.w_open
        io.open = self.w_open
        os.open = self.w_os_open
        os.stat = self.w_stat
        os.lstat = self.w_lstat
        os.fsync = self.w_fsync
        os.chmod = self.w_chmod
        os.rename = self.w_rename
        os.replace = self.w_replace
        os.unlink = self.w_unlink
        os.remove = self.w_unlink
        os.listdir = self.w_listdir
        os.scandir = self.w_scandir
        os.mkdir = self.w_mkdir
        os.rmdir = self.w_rmdir
        os.utime = self.w_utime
        os.truncate = self.w_truncate
        os.link = self.w_link
        os.symlink = self.w_symlink
        # make shutil's copy go through open()/write(), not sendfile/copy_file_range
        for name in ("_USE_CP_SENDFILE", "_USE_CP_COPY_FILE_RANGE", "_HAS_FCOPYFILE"):
            if hasattr(shutil, name):
                setattr(shutil, name, False)
        self.installed = True

    def uninstall(self) -> None:
        if not self.installed:
            return
        builtins.open = _real["open"]
        io.open = _real["open"]
        for k, v in _real.items():
            if k.startswith("os."):
                setattr(os, k[3:], v)
        self.installed = False

    # -- views ---------------------------------------------------------------
    def mutations(self, since: int = 0) -> list[list]:
        return [e for e in self.journal[since:] if e[1] in MUTATING]

    def journal_digestable(self) -> list:
        return [[e[0], e[1], e[2], sorted(e[3].items())] + e[4:] for e in self.journal]


def snapshot_tree(root: str) -> dict:
    """rel path -> (bytes, mode) for every regular file; dirs as (None, mode)."""
    out: dict[str, Any] = {}
    root = root.rstrip("/")
    for dirpath, dirnames, filenames in _walk_real(root):
        for d in dirnames:
            full = os.path.join(dirpath, d)
            out[full[len(root) + 1 :] + "/"] = (None, _stat.S_IMODE(_real["os.lstat"](full).st_mode))
        for fn in filenames:
            full = os.path.join(dirpath, fn)
            st = _real["os.lstat"](full)
            if _stat.S_ISREG(st.st_mode):
                out[full[len(root) + 1 :]] = (real_read(full), _stat.S_IMODE(st.st_mode))
    return out


def snapshot_meta(root: str) -> dict:
    """rel path -> (ino, mtime_ns, mode, size) using real calls."""
    out: dict[str, Any] = {}
    root = root.rstrip("/")
    for dirpath, dirnames, filenames in _walk_real(root):
        for fn in filenames:
            full = os.path.join(dirpath, fn)
            st = _real["os.lstat"](full)
            out[full[len(root) + 1 :]] = (st.st_ino, st.st_mtime_ns, _stat.S_IMODE(st.st_mode), st.st_size)
    return out


def _walk_real(top: str):
    with _real["os.scandir"](top) as it:
        entries = sorted(it, key=lambda e: e.name)
    dirs = [e.name for e in entries if e.is_dir(follow_symlinks=False)]
    files = [e.name for e in entries if not e.is_dir(follow_symlinks=False)]
    yield top, dirs, files
    for d in dirs:
        yield from _walk_real(os.path.join(top, d))


def write_tree(root: str, files: dict) -> None:
    """Materialise {rel: (bytes|None, mode)} under root using real calls."""
    root = root.rstrip("/")
    for rel in sorted(files):
        data, mode = files[rel]
        full = os.path.join(root, rel.rstrip("/"))
        if data is None:
            os.makedirs(full, exist_ok=True)
            continue
        os.makedirs(os.path.dirname(full), exist_ok=True)
        with _real["open"](full, "wb") as f:
            f.write(data)
        _real["os.chmod"](full, mode)
    for rel in sorted(files, reverse=True):
        data, mode = files[rel]
        if data is None:
            _real["os.chmod"](os.path.join(root, rel.rstrip("/")), mode)


def clear_tree(root: str) -> None:
    import shutil

    root = root.rstrip("/")
    if not os.path.isdir(root):
        return
    with _real["os.scandir"](root) as it:
        entries = list(it)
    for e in entries:
        full = os.path.join(root, e.name)
        if e.is_dir(follow_symlinks=False):
            _real["os.chmod"](full, 0o755)
            _rmtree_real(full)
        else:
            _real["os.unlink"](full)


def _rmtree_real(path: str) -> None:
    with _real["os.scandir"](path) as it:
        entries = list(it)
    for e in entries:
        full = os.path.join(path, e.name)
        if e.is_dir(follow_symlinks=False):
            _real["os.chmod"](full, 0o755)
            _rmtree_real(full)
        else:
            _real["os.unlink"](full)
    _real["os.rmdir"](path)


def restore_tree(root: str, tree: dict) -> None:
    """Make the directory under root equal to tree without removing
    directories that stay (a node's cwd must survive a restore)."""
    root = root.rstrip("/")
    want_dirs = {k.rstrip("/") for k, v in tree.items() if v[0] is None}
    for k, v in tree.items():
        if v[0] is not None:
            d = os.path.dirname(k)
            while d:
                want_dirs.add(d)
                d = os.path.dirname(d)
    existing = list(_walk_real(root)) if os.path.isdir(root) else []
    for dirpath, dirnames, filenames in existing:
        try:
            _real["os.chmod"](dirpath, 0o755)
        except OSError:
            pass
    for dirpath, dirnames, filenames in reversed(existing):
        reldir = dirpath[len(root) + 1 :]
        for fn in filenames:
            rel = (reldir + "/" if reldir else "") + fn
            full = os.path.join(dirpath, fn)
            want = tree.get(rel)
            if want is None or want[0] is None:
                _real["os.unlink"](full)
                continue
            st = _real["os.lstat"](full)
            if _stat.S_IMODE(st.st_mode) != want[1] or st.st_size != len(want[0]) or real_read(full) != want[0]:
                _real["os.unlink"](full)
        if reldir and reldir not in want_dirs:
            try:
                _real["os.rmdir"](dirpath)
            except OSError:
                _rmtree_real(dirpath)
    os.makedirs(root, exist_ok=True)
    for d in sorted(want_dirs):
        full = os.path.join(root, d)
        if not os.path.isdir(full):
            os.makedirs(full, exist_ok=True)
    for rel in sorted(tree):
        data, mode = tree[rel]
        if data is None:
            continue
        full = os.path.join(root, rel)
        if not os.path.lexists(full):
            with _real["open"](full, "wb") as f:
                f.write(data)
            _real["os.chmod"](full, mode)
    for rel in sorted(tree, reverse=True):
        data, mode = tree[rel]
        if data is None:
            _real["os.chmod"](os.path.join(root, rel.rstrip("/")), mode)
