"""SimPool: a discrete-event stand-in for multiprocessing.pool.Pool.

Implements exactly the surface sqlfluff's ParallelRunner uses. Every
interleaving decision (producer run-ahead, which worker starts which task,
who finishes next, which finished result is delivered next) is a
Chooser.pick(); tasks and results really cross a ForkingPickler boundary.

Backends:
  inproc  - the task runs in this interpreter (own contextvars.Context per
            worker), after a real pickle round-trip.
  forked  - the task blob is shipped to a fresh process forked from the
            node's zygote (empty sqlfluff state, like a real spawn worker).
"""

from __future__ import annotations

import contextvars
import pickle
from multiprocessing.reduction import ForkingPickler
from typing import Any, Callable, Iterable, Optional

DURATIONS = [1, 1, 2, 3, 5, 8, 13, 50, 200]


class SimPoolStuck(RuntimeError):
    pass


class PoolSim:
    """Per-node configuration + statistics shared by all pools of a run."""

    def __init__(
        self,
        pick: Callable[[str, int], int],
        log: Callable[[list], None],
        backend: str = "inproc",
        lookahead: int = 2,
        dequeue: str = "fifo",
        worker_factory: Optional[Callable[[], Any]] = None,
        task_hook: Optional[Callable[[Any], None]] = None,
        straggler: Optional[int] = None,
    ) -> None:
        self.pick = pick
        self.log = log
        self.backend = backend
        self.lookahead = lookahead
        self.dequeue = dequeue
        self.worker_factory = worker_factory
        self.task_hook = task_hook
        # "slow node" fault: the task with this submission number takes far longer than any other,
        # i.e. its worker finishes it after everything else that worker's peers can get through
        self.straggler = straggler
        self.clock = 0
        self.stats = {
            "pools": 0,
            "tasks": 0,
            "out_of_order_deliveries": 0,
            "deliveries_with_inflight": 0,
            "max_inflight": 0,
            "max_runahead": 0,
            "steps": 0,
        }
        self.consumer_probe: Optional[Callable[[], None]] = None

    def factory(self, processes: int, initializer: Optional[Callable[[], None]] = None, **kw: Any):
        self.stats["pools"] += 1
        return SimPool(self, processes, initializer)


class _Worker:
    def __init__(self, idx: int) -> None:
        self.idx = idx
        self.busy = False
        self.until = 0
        self.result: Optional[bytes] = None
        self.task_no = -1
        self.ctx = contextvars.copy_context()
        self.remote: Any = None
        self.initialised = False


class SimPool:
    def __init__(self, sim: PoolSim, processes: int, initializer: Optional[Callable[[], None]]):
        self.sim = sim
        self.processes = processes
        self.initializer = initializer
        self.workers = [_Worker(i) for i in range(processes)]
        self.terminated = False
        self.joined = False
        sim.log(["pool", "create", processes, sim.backend, sim.lookahead, sim.dequeue])

    def imap_unordered(self, func: Callable, iterable: Iterable, chunksize: int = 1):
        return _SimIter(self, func, iterable, ordered=False)

    def imap(self, func: Callable, iterable: Iterable, chunksize: int = 1):
        return _SimIter(self, func, iterable, ordered=True)

    def terminate(self) -> None:
        if not self.terminated:
            self.terminated = True
            for w in self.workers:
                if w.remote is not None:
                    try:
                        w.remote.close()
                    except Exception:
                        pass
                    w.remote = None
            self.sim.log(["pool", "terminate"])

    def close(self) -> None:
        pass

    def join(self) -> None:
        self.joined = True

    def __enter__(self) -> "SimPool":
        return self

    def __exit__(self, *a: Any) -> None:
        self.terminate()


class _SimIter:
    def __init__(self, pool: SimPool, func: Callable, iterable: Iterable, ordered: bool):
        self.pool = pool
        self.sim = pool.sim
        self.func = func
        self.gen = iter(iterable)
        self.gen_done = False
        self.inbox: list[tuple[int, bytes]] = []
        self.outbox: list[tuple[int, bytes]] = []
        self.ordered = ordered
        self.produced = 0
        self.delivered = 0
        self.next_ordered = 0
        self.last_delivered_no = -1

    def __iter__(self) -> "_SimIter":
        return self

    def close(self) -> None:
        self.gen_done = True
        c = getattr(self.gen, "close", None)
        if c:
            c()

    # -- worker execution ---------------------------------------------------
    def _run_task(self, w: _Worker, blob: bytes) -> bytes:
        sim = self.sim
        if sim.backend == "forked":
            if w.remote is None:
                assert sim.worker_factory is not None
                w.remote = sim.worker_factory()
                w.remote.call("pool_init", init=bytes(ForkingPickler.dumps(self.pool.initializer)))
            return w.remote.call("pool_task", blob=bytes(blob))["blob"]

        # in-process: own Context per worker, real pickle round trip
        def _do() -> bytes:
            if not w.initialised:
                w.initialised = True
                if self.pool.initializer is not None:
                    self.pool.initializer()
            func, task = pickle.loads(blob)
            if sim.task_hook is not None:
                sim.task_hook(task)
            res = func(task)
            return bytes(ForkingPickler.dumps(res))

        return w.ctx.run(_do)

    # -- the event loop --------------------------------------------------------
    def __next__(self) -> Any:
        sim = self.sim
        pool = self.pool
        steps = 0
        while True:
            if pool.terminated:
                raise StopIteration
            enabled: list[tuple] = []
            if not self.gen_done and len(self.inbox) < sim.lookahead:
                enabled.append(("PRODUCE",))
            if self.inbox:
                for w in pool.workers:
                    if not w.busy:
                        enabled.append(("START", w.idx))
            busy = [w for w in pool.workers if w.busy]
            if busy:
                m = min(w.until for w in busy)
                for w in busy:
                    if w.until == m:
                        enabled.append(("FINISH", w.idx))
            if self.outbox:
                if self.ordered:
                    if any(no == self.next_ordered for no, _ in self.outbox):
                        enabled.append(("DELIVER",))
                else:
                    enabled.append(("DELIVER",))
            if not enabled:
                if self.gen_done and not self.inbox and not busy and not self.outbox:
                    raise StopIteration
                raise SimPoolStuck("no enabled event but work outstanding")
            steps += 1
            sim.stats["steps"] += 1
            if steps > 10000:
                raise SimPoolStuck("step cap")
            ev = enabled[sim.pick("pool", len(enabled))]
            kind = ev[0]
            if kind == "PRODUCE":
                try:
                    item = next(self.gen)
                except StopIteration:
                    self.gen_done = True
                    sim.log(["pool", "PRODUCE-END"])
                    continue
                blob = bytes(ForkingPickler.dumps((self.func, item)))
                self.inbox.append((self.produced, blob))
                sim.log(["pool", "PRODUCE", self.produced, len(blob)])
                self.produced += 1
                sim.stats["tasks"] += 1
                sim.stats["max_runahead"] = max(
                    sim.stats["max_runahead"], self.produced - self.delivered
                )
            elif kind == "START":
                w = pool.workers[ev[1]]
                if sim.dequeue == "any" and len(self.inbox) > 1:
                    i = sim.pick("dequeue", len(self.inbox))
                else:
                    i = 0
                no, blob = self.inbox.pop(i)
                dur = DURATIONS[sim.pick("dur", len(DURATIONS))]
                if sim.straggler is not None and no == sim.straggler:
                    dur = 100000
                    sim.stats["straggler_started"] = sim.stats.get("straggler_started", 0) + 1
                w.busy = True
                w.task_no = no
                w.until = sim.clock + dur
                sim.log(["pool", "START", w.idx, no, dur])
                w.result = self._run_task(w, blob)
                inflight = sum(1 for x in pool.workers if x.busy)
                sim.stats["max_inflight"] = max(sim.stats["max_inflight"], inflight)
            elif kind == "FINISH":
                w = pool.workers[ev[1]]
                sim.clock = max(sim.clock, w.until)
                sim.stats["clock"] = sim.clock
                assert w.result is not None
                self.outbox.append((w.task_no, w.result))
                sim.log(["pool", "FINISH", w.idx, w.task_no, sim.clock])
                w.busy = False
                w.result = None
            else:  # DELIVER
                if self.ordered:
                    i = [no for no, _ in self.outbox].index(self.next_ordered)
                    self.next_ordered += 1
                elif len(self.outbox) > 1:
                    i = sim.pick("deliver", len(self.outbox))
                else:
                    i = 0
                no, blob = self.outbox.pop(i)
                inflight = sum(1 for x in pool.workers if x.busy) + len(self.inbox)
                if no < self.last_delivered_no:
                    sim.stats["out_of_order_deliveries"] += 1
                self.last_delivered_no = max(self.last_delivered_no, no)
                if inflight or self.outbox:
                    sim.stats["deliveries_with_inflight"] += 1
                self.delivered += 1
                sim.log(["pool", "DELIVER", no, inflight])
                return pickle.loads(blob)
