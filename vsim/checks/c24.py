"""C24 Parallel and serial runs agree — seeded schedule search.

reference : fresh node (zygote hash seed A), processes=1, sorted path args
subject   : fresh node (zygote hash seed B), processes in {2,3,4,8,0,-1},
            permuted path args, sqlfluff's real ParallelRunner on SimPool
            (every PRODUCE/START/FINISH/DELIVER interleaving is a Chooser
            decision; tasks/results really pickled; inproc or forked workers)
oracle    : per-file violations, files_skipped, stats/exit code and the
            complete directory contents (bytes + modes) are equal.
"""

from __future__ import annotations

import json
import os
from collections import Counter
from typing import Any, Optional

from vsim import seams
from vsim.cluster import digest
from vsim.rng import Rng, sha
from vsim.world import KINDS, gen_fix_world, sql_files, world_tree

ID = "C24"
LEVEL = "exploration"
RULE = (
    "one run = a generated project (3-8 SQL files of mixed kinds over 1-3 dirs, nested configs, templaters, "
    "noqa, ignore file, size limits) linted or fixed twice: serial reference in a fresh process and a scheduled "
    "parallel subject in another fresh process with a different PYTHONHASHSEED, permuted path arguments and a "
    "SimPool whose every interleaving decision comes from the seed. evaluations = subject executions compared. "
    "non-trivial iff the subject's result delivery order differed from submission order OR a result was "
    "delivered (and, when fixing, persisted) while other tasks were still in flight; distinct = distinct "
    "(world digest, scenario digest, choice-tape digest)."
)
TIERS = {
    "quick": {"runs": 160, "budget_s": 60, "min_runs": 4, "run_timeout_s": 240},
    "thorough": {"runs": 12000, "budget_s": 800, "min_runs": 40, "run_timeout_s": 600},
}
COMPONENTS_REAL = [
    "sqlfluff Linter.lint_paths, get_runner, ParallelRunner.run/_apply/iter_partials, DelayedException, FluffConfig pickling",
    "sqlfluff cli lint/fix/format via click CliRunner",
    "pickle/ForkingPickler + tblib traceback pickling",
    "forked-worker backend: real fresh processes (zygote forks) connected by real sockets",
]
COMPONENTS_STUBBED = [
    "multiprocessing.Pool / OS scheduling -> SimPool discrete-event scheduler",
    "module time -> virtual clock",
    "multiprocessing.cpu_count -> constant per run",
    "tqdm progress bars disabled; uuid4 and temp names seeded",
    "(fidelity cross-check only, outside digests and verdicts: in the thorough tier 1 run in 8 repeats the subject through the real multiprocessing.Pool)",
]
ASSUMPTIONS = [
    "SimPool delivers every submitted task's result exactly once in some order, like imap_unordered without worker death",
    "no two path arguments overlap and no fixed-suffix output collides with an input (outside 'a set of files')",
]

PROCS = [2, 2, 2, 3, 4, 8, 0, -1]
# warm zygotes have already performed the lazy imports of a first lint (rule
# plugins + these dialect modules); cold ones have not. Drawn per run.
WARM = "rules,ansi,postgres,bigquery,snowflake"


def gen_scenario(rng: Rng, world: dict) -> dict:
    files = sql_files(world)
    cwd = world["cwd"]
    rels = [os.path.relpath(f, cwd) for f in files]
    style = rng.choice(["dot", "dot", "files", "dirs", "mixed"])
    if style == "dot":
        paths = ["."]
    elif style == "files":
        paths = list(rels)
    elif style == "dirs":
        ds = sorted({os.path.dirname(r) for r in rels})
        if "" in ds:
            paths = ["."]
        else:
            paths = ds
    else:
        # top-level files individually + sub-directories as dirs
        paths = [r for r in rels if "/" not in r]
        tops = sorted({r.split("/")[0] for r in rels if "/" in r})
        paths += tops
        if not paths:
            paths = ["."]
    perm = list(paths)
    rng.shuffle(perm)
    action = rng.choice(["lint", "fix", "fix", "fix"])
    via = rng.choice(["api", "api", "cli"])
    sc: dict[str, Any] = {
        "action": action,
        "via": via,
        "paths": sorted(paths),
        "perm": perm,
        "processes": rng.choice(PROCS),
        "lookahead": rng.choice([1, 2, 2, 4, 16]),
        "dequeue": rng.choice(["fifo", "fifo", "any"]),
        "backend": "forked" if rng.chance(0.2) else "inproc",
        "cpu_count": rng.choice([2, 4, 8]),
        "listing": rng.choice(["sorted", "shuffle", "reverse"]),
        "overrides": {},
        "cli_flags": [],
        "fault": "none",
        "subject_seed": rng.randrange(1 << 30),
        "cmd": "fix",
        # slow-worker fault: this submission number takes ~forever (None = nobody)
        "straggler": rng.choice([None, None, None, 0, 0, 1, 2, 4]),
    }
    if rng.chance(0.2):
        ov = rng.choice([{"exclude_rules": "LT01"}, {"rules": "LT01,LT12,CP01,LT02"}, {"exclude_rules": "CP01,LT12"}])
        sc["overrides"] = ov
    if via == "cli":
        if action == "lint" and rng.chance(0.4):
            sc["cli_flags"].append("--warn-unused-ignores")
        if action == "fix" and rng.chance(0.25):
            sc["cmd"] = "format"
            sc["overrides"] = {}
    if rng.chance(0.25):
        # an explicitly supplied config file (--config / extra_config_path), under several spellings;
        # it travels to the workers inside the pickled FluffConfig
        sc["extra_config"] = rng.choice(["extra_cfg/custom.cfg", "./extra_cfg/custom.cfg", "extra_cfg/../extra_cfg/custom.cfg", "~/custom.cfg", "$ABS"])
    fr = rng.random()
    if fr < 0.12:
        sc["fault"] = "task_exc"
        sc["victims"] = [os.path.basename(rng.choice(files))]
    elif fr < 0.24:
        sc["fault"] = "read_err"
        v = os.path.basename(rng.choice(files))
        if rng.chance(0.75):
            # (ENOENT: the file vanished between discovery and processing)
            sc["plan"] = [{"cls": "open_r", "path": "/" + v, "nth": rng.choice([0, 0, 1]), "kind": "err", "errno": rng.choice(["EIO", "EACCES", "ENOENT", "ENOENT"])}]
        else:
            sc["plan"] = [{"cls": "open_r", "path": "/" + v, "repeat": True, "kind": "short_read", "bytes": rng.choice([5, 40, 200])}]
    return sc


def _cli_argv(sc: dict, world: dict, paths: list, processes: int) -> list:
    if sc["action"] == "lint":
        argv = ["lint"] + paths + ["--format", "json", "-p", str(processes)] + sc["cli_flags"]
    else:
        argv = [sc["cmd"]] + paths + ["-p", str(processes)]
        if world["suffix"]:
            argv += ["--fixed-suffix", world["suffix"]]
    for k, v in sc["overrides"].items():
        argv += ["--" + k.replace("_", "-"), v]
    if sc.get("extra_config"):
        argv += ["--config", _extra_path(sc, world)]
    return argv


EXTRA_CFG = b"[sqlfluff]\nmax_line_length = 50\n\n[sqlfluff:rules:capitalisation.keywords]\ncapitalisation_policy = lower\n"
EXTRA_CFG_HOME = b"[sqlfluff]\nexclude_rules = LT01\n\n[sqlfluff:rules:capitalisation.keywords]\ncapitalisation_policy = upper\n"


def _extra_path(sc: dict, world: dict) -> str:
    p = sc["extra_config"]
    return os.path.join(world["_root"], "proj/extra_cfg/custom.cfg") if p == "$ABS" else p


def execute(node: Any, sc: dict, world: dict, paths: list, processes: int) -> dict:
    fix = sc["action"] == "fix"
    kw: dict[str, Any] = {}
    if sc["fault"] == "task_exc":
        kw["task_exc"] = sc["victims"]
    if sc["fault"] == "read_err":
        kw["plan"] = sc["plan"]
    if sc["via"] == "api":
        return node.call(
            "lint_paths",
            paths=paths,
            fix=fix,
            apply_fixes=fix,
            processes=processes,
            fixed_file_suffix=world["suffix"] if fix else "",
            overrides=sc["overrides"] or None,
            retain_files=not fix,
            extra_config=_extra_path(sc, world) if sc.get("extra_config") else None,
            **kw,
        )
    return node.call("cli", argv=_cli_argv(sc, world, paths, processes), **kw)


def canon_outcome(out: dict, sc: dict) -> dict:
    """Everything the statement speaks about, with timings removed."""
    c: dict[str, Any] = {}
    if "exception" in out:
        c["exception"] = out["exception"][:1]  # class only
    if "crashed" in out:
        c["crashed"] = True
    if sc["via"] == "api":
        c["records"] = {r["filepath"]: r["violations"] for r in out.get("records", [])}
        c["files_skipped"] = out.get("files_skipped")
        st = out.get("stats")
        c["stats"] = st
    else:
        c["exit_code"] = out.get("exit_code")
        if sc["action"] == "lint" and "exception" not in out:
            try:
                recs = json.loads(out.get("stdout") or "[]")
                c["records"] = {
                    r["filepath"]: r["violations"] for r in recs
                }
            except Exception:
                c["stdout_unparsed"] = sorted((out.get("stdout") or "").splitlines())
    files = {}
    for f in out.get("mon", {}).get("files", []):
        files[f["path"]] = {k: f.get(k) for k in ("violations", "tmp_prs_unfiltered", "fixable", "encoding")}
    c["per_file"] = files
    return c


def compare(ref: dict, sub: dict, tree_ref: dict, tree_sub: dict, relaxed: bool, tree_clean: Optional[dict] = None, initial: Optional[dict] = None) -> Optional[str]:
    if relaxed:
        # aborting fault: same exception class; each file untouched or equal to the clean reference's version
        if ref.get("exception") != sub.get("exception"):
            return "aborting fault: reference raised %s, subject raised %s" % (ref.get("exception"), sub.get("exception"))
        assert tree_clean is not None and initial is not None
        for rel, (data, mode) in tree_sub.items():
            if data is None:
                continue
            ok = []
            if rel in initial:
                ok.append(initial[rel][0])
            if rel in tree_clean:
                ok.append(tree_clean[rel][0])
            if data not in ok:
                return "aborting fault: %s is neither untouched nor equal to the serial fixed version" % rel
        return None
    for key in ("exception", "crashed", "exit_code", "files_skipped", "stats"):
        if ref.get(key) != sub.get(key):
            return "%s differs: serial=%r parallel=%r" % (key, ref.get(key), sub.get(key))
    for key in ("records", "per_file"):
        a, b = ref.get(key), sub.get(key)
        if a == b:
            continue
        if a is None or b is None:
            return "%s present in only one run" % key
        if sorted(a) != sorted(b):
            return "%s: file sets differ: serial-only=%s parallel-only=%s" % (key, sorted(set(a) - set(b)), sorted(set(b) - set(a)))
        for f in sorted(a):
            if a[f] != b[f]:
                return "%s for %s differ:\n serial  =%s\n parallel=%s" % (key, f, json.dumps(a[f])[:700], json.dumps(b[f])[:700])
    if tree_ref != tree_sub:
        for rel in sorted(set(tree_ref) | set(tree_sub)):
            if tree_ref.get(rel) != tree_sub.get(rel):
                x, y = tree_ref.get(rel), tree_sub.get(rel)
                return "directory contents differ at %s: serial=%r parallel=%r" % (
                    rel,
                    None if x is None else (x[0][:80] if x[0] is not None else "dir", oct(x[1])),
                    None if y is None else (y[0][:80] if y[0] is not None else "dir", oct(y[1])),
                )
    return None


def run_one(ctx: Any, seed: int, tier: str, replay: Optional[dict] = None) -> dict:
    rng = Rng(seed)
    if replay:
        world = replay["world"]
        sc = replay["scenario"]
        hs_a, hs_b = replay["hashseeds"]
    else:
        world = gen_fix_world(rng.fork("world"), {
            "size_limits": rng.fork("feat").chance(0.25),
            "encodings": ["utf-8", "utf-8", "utf-8", "utf-8", "utf-8-sig", "utf-16-le-bom"],
            "newlines": ["lf", "lf", "lf", "crlf"],
            "kinds": KINDS + ["cte_multi", "rulecase", "rulecase"],
            "bait": 0.2,
            "max_files": rng.fork("nfiles").choice([8, 8, 8, 12]),
            "jinja_loader": 0.25,
            "nested_templater": 0.4,
        })
        sc = gen_scenario(rng.fork("scenario"), world)
        pool = ctx.hashseeds(6)
        hr = rng.fork("hashseed")
        hs_a = hr.choice(pool)
        hs_b = hr.choice([h for h in pool if h != hs_a])
        sc["warm"] = WARM if hr.chance(0.75) else ""
    cl = ctx.cluster
    root = cl.new_root("C24-%d" % seed)
    if sc.get("extra_config"):
        from vsim.world import b64 as _b64

        world["files"].setdefault("proj/extra_cfg/custom.cfg", {"b64": _b64(EXTRA_CFG), "mode": 0o644})
        world["files"].setdefault("home/u/custom.cfg", {"b64": _b64(EXTRA_CFG_HOME), "mode": 0o644})
        if "proj/extra_cfg" not in world["dirs"]:
            world["dirs"].append("proj/extra_cfg")
    world["_root"] = root
    initial = world_tree(world)
    log: list = []
    violations: list[dict] = []
    probes: Counter = Counter()
    faults: Counter = Counter()
    nontrivial: list = []
    schedules: list = []
    sim_time = 0
    evaluations = 0
    samples: list = []
    harness_notes: list = []
    try:
        def fresh(z, name: str, seed_: int, knobs: dict, tape=None):
            seams.restore_tree(root, initial)
            return z.node({"name": name, "root": root, "cwd": world["cwd"], "seed": seed_, "knobs": knobs, "tape": tape})

        base_knobs = {"cpu_count": sc["cpu_count"], "journal_reads": True}
        # ---- reference ----
        za = cl.zygote(hs_a, sc.get("warm", ""))
        ref_node = fresh(za, "ref", seed, dict(base_knobs, listing="sorted"))
        try:
            ref_out = execute(ref_node, sc, world, sc["paths"], 1)
        finally:
            ref_node.close()
        tree_ref = seams.snapshot_tree(root)
        ref_c = canon_outcome(ref_out, sc)
        log.append(["ref", ref_c, sorted((k, sha(repr(v))[:10]) for k, v in tree_ref.items())])
        tree_clean = None
        relaxed = sc["fault"] == "read_err" and "exception" in ref_out
        if relaxed:
            sc2 = dict(sc, fault="none")
            n2 = fresh(za, "clean", seed, dict(base_knobs, listing="sorted"))
            try:
                execute(n2, sc2, world, sc["paths"], 1)
            finally:
                n2.close()
            tree_clean = seams.snapshot_tree(root)
        # ---- subject ----
        zb = cl.zygote(hs_b, sc.get("warm", ""))
        backends = [sc["backend"]]

        def run_subject(backend: str, tape):
            knobs = dict(
                base_knobs,
                listing=sc["listing"],
                lookahead=sc["lookahead"],
                dequeue=sc["dequeue"],
                pool_backend=backend,
                straggler=sc.get("straggler"),
            )
            if sc["fault"] == "read_err":
                knobs["worker_plan"] = sc["plan"]
            n = fresh(zb, "sub", sc["subject_seed"], knobs, tape=tape)
            if backend == "real":
                n.sock.settimeout(180)  # the real pool is not ours to schedule: never wait for it for ever
            try:
                out = execute(n, sc, world, sc["perm"], sc["processes"])
                pool = dict(n.pool)
                fired = dict(n.fired)
            except (TimeoutError, OSError):
                if backend != "real":
                    raise
                n.kill()
                raise TimeoutError("real pool run exceeded 180 s")
            finally:
                t = n.close()
            return out, pool, fired, t, seams.snapshot_tree(root)

        sub_out, pool, fired, tape, tree_sub = run_subject(sc["backend"], replay.get("tape") if replay else None)
        evaluations += 1
        sub_c = canon_outcome(sub_out, sc)
        sim_time += pool.get("clock", 0)
        for k, v in fired.items():
            if ":" not in k:
                faults[k] += v
        if sc["fault"] == "task_exc":
            faults["task_exc"] += 1
        probes["pools_created"] += pool.get("pools", 0)
        probes["out_of_order_deliveries"] += pool.get("out_of_order_deliveries", 0)
        probes["deliveries_with_inflight"] += pool.get("deliveries_with_inflight", 0)
        probes["max_inflight_ge2"] += 1 if pool.get("max_inflight", 0) >= 2 else 0
        probes["backend_" + sc["backend"]] += 1
        if pool.get("straggler_started"):
            faults["straggler"] += 1
        probes["via_%s_%s" % (sc["via"], sc["action"])] += 1
        persisted = len(sub_out.get("mon", {}).get("persist", []))
        probes["persist_calls"] += persisted
        tdig = sha(repr(tape))[:12]
        schedules.append(tdig)
        wdig = sha(json.dumps(world["files"], sort_keys=True))[:10]
        if pool.get("pools", 0) and (pool.get("out_of_order_deliveries", 0) or pool.get("deliveries_with_inflight", 0)):
            nontrivial.append("%s|%s|%s" % (wdig, sha(json.dumps(sc, sort_keys=True))[:10], tdig))
        msg = compare(ref_c, sub_c, tree_ref, tree_sub, relaxed, tree_clean, initial)
        log.append(["sub", sub_c, sorted((k, sha(repr(v))[:10]) for k, v in tree_sub.items()), pool, msg])
        if msg and sc["backend"] == "inproc":
            # in-process workers share interpreter state with the parent, real
            # workers do not: confirm with fresh-process workers before reporting
            sub_out2, pool2, fired2, tape2, tree_sub2 = run_subject("forked", tape)
            evaluations += 1
            msg2 = compare(ref_c, canon_outcome(sub_out2, sc), tree_ref, tree_sub2, relaxed, tree_clean, initial)
            log.append(["sub-forked-confirm", msg2])
            if not msg2:
                probes["inproc_only_divergence"] += 1
                msg = None
            else:
                msg = msg2
        # ---- SimPool fidelity cross-check: the same subject through the REAL multiprocessing.Pool ----
        # (OS-scheduled, hence outside the digest and never a verdict: a disagreement here that SimPool
        # did not show means the stand-in misses something and is reported as a harness error)
        # (thorough tier only: 1 run in 8; VSIM_REALPOOL=1 forces it on in any tier, =0 turns it off)
        fid = os.environ.get("VSIM_REALPOOL", "")
        fidelity_on = fid == "1" or (fid != "0" and tier == "thorough" and seed % 8 == 0)
        if not replay and not msg and sc["fault"] == "none" and fidelity_on:
            try:
                r_out, _, _, _, r_tree = run_subject("real", None)
                r_msg = compare(ref_c, canon_outcome(r_out, sc), tree_ref, r_tree, False, None, initial)
            except TimeoutError:
                r_msg = None
                probes["real_pool_timeouts"] += 1
            except Exception as e:  # the real pool is not under our control
                r_msg = "real-pool run failed: %r" % (e,)
            probes["real_pool_crosschecks"] += 1
            if r_msg:
                probes["real_pool_disagreements"] += 1
                harness_notes.append("SimPool fidelity: real multiprocessing.Pool run of seed %d disagrees with the serial reference although the SimPool run agreed: %s" % (seed, r_msg[:400]))
        if msg:
            sig = "C24:" + msg.split(":")[0].split(" differ")[0][:40]
            violations.append(
                {
                    "oracle": "serial-vs-parallel",
                    "signature": sig,
                    "message": msg,
                    "replay": {"world": world, "scenario": sc, "tape": tape, "hashseeds": [hs_a, hs_b], "tier": tier},
                }
            )
        samples.append(
            {
                "scenario": {k: sc[k] for k in ("action", "via", "cmd", "paths", "perm", "processes", "lookahead", "dequeue", "backend", "fault", "overrides")},
                "files": {k: v.get("kind") for k, v in world["meta"].items()},
                "hashseeds": [hs_a, hs_b],
                "pool": pool,
                "tape_len": len(tape),
            }
        )
    finally:
        cl.drop_root(root)
    return {
        "digest": digest(log, root),
        "evaluations": evaluations,
        "nontrivial": nontrivial,
        "violations": violations,
        "faults": dict(faults),
        "probes": dict(probes),
        "states": [],
        "schedules": schedules,
        "sim_time": sim_time,
        "samples": samples,
        "harness_notes": harness_notes,
    }


def shrink_candidates(rp: dict):
    import copy

    from vsim.shrink import drop_world_files, tape_candidates

    def fix(r: dict, removed: set) -> bool:
        cwd = r["world"]["cwd"]
        gone = {os.path.relpath(x, cwd) for x in removed}
        sc = r["scenario"]
        sc["paths"] = [p for p in sc["paths"] if p not in gone]
        sc["perm"] = [p for p in sc["perm"] if p not in gone]
        if sc.get("victims"):
            if any(os.path.basename(x) in sc["victims"] for x in removed):
                return False
        return bool(sc["paths"]) and len(r["world"]["meta"]) >= 2

    yield from drop_world_files(rp, fixups=fix)
    for t in tape_candidates(rp.get("tape") or []):
        r = copy.deepcopy(rp)
        r["tape"] = t
        yield "tape", r
    sc = rp["scenario"]
    if sc["processes"] not in (2,):
        r = copy.deepcopy(rp)
        r["scenario"]["processes"] = 2
        yield "processes=2", r
    if sc["lookahead"] != 1:
        r = copy.deepcopy(rp)
        r["scenario"]["lookahead"] = 1
        yield "lookahead=1", r
    if sc["perm"] != sc["paths"]:
        r = copy.deepcopy(rp)
        r["scenario"]["perm"] = list(sc["paths"])
        yield "unpermuted paths", r
