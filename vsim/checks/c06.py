"""C06 Parsing is deterministic and unaffected by parser optimisations — buggify + histories."""

from __future__ import annotations

import json
import os
import re
import time
from collections import Counter
from typing import Any, Optional

from vsim.cluster import digest
from vsim.rng import Rng, sha
from vsim.world import corpus

ID = "C06"
LEVEL = "exploration"
RULE = (
    "three kinds of run. (a) sweep-only (a third): 24 fixtures, half mutated, default vs both optimisations off in one process. "
    "(b) order run (a fifth): 14-20 (text, dialect) items over three dialects (fixtures, mostly mutated, squeezed word boundaries and "
    "odd identifiers preferred; a quarter of the texts under two dialects) parsed in one process in one order and in a second process "
    "(other PYTHONHASHSEED) in another order (reversed, or grouped by dialect with the dialect order reversed): every item must get the "
    "same tree in both. (c) full run = 3-5 inputs of one dialect, partly siblings (same base, different mutation) (dialect fixtures <= 1.5 kB from /repo/test/fixtures/dialects when readable, alone or two concatenated, "
    "a built-in corpus, small Jinja files with loops/ifs, and seeded token-level mutations of those: delete / "
    "duplicate / swap a token, truncate, stray bracket / keyword / quote, count-preserving token replacement; in three quarters "
    "of the full runs also an 'aborted parse, then its near twin' pair: a two-statement base whose copy A has an unpartnered "
    "opening bracket in the second half - the parser raises part-way - and whose copy B differs by one token in the "
    "first half, parsed back to back) parsed inside ONE long-lived node in a drawn order with repeats (siblings adjacent in half of the runs), interleaved with parses and lint+fix runs of other dialects, each parse under a drawn "
    "buggify configuration (parse cache answering 'miss' on a fraction r of its hits, first-token pruning skipped on "
    "a fraction r of calls, r in {0.1, 0.5, 1}). Each history parse must equal R0 = the same text parsed alone in a "
    "fresh process (other PYTHONHASHSEED, optimisations at defaults) and R1 = fresh process with both optimisations "
    "fully off. Compared: the complete tree (types, raws, source and templated slices of every leaf) and the "
    "LXR/PRS/TMP violations. evaluations = history parses compared. non-trivial iff a fast path was really skipped "
    "during that parse (a would-be cache hit recomputed or an option un-pruned) or >= 1 other input was parsed "
    "earlier in the same process; distinct = distinct (text digest, dialect, buggify config, history-prefix digest)."
)
TIERS = {
    "quick": {"runs": 80, "budget_s": 75, "min_runs": 4, "run_timeout_s": 420},
    "thorough": {"runs": 5000, "budget_s": 800, "min_runs": 40, "run_timeout_s": 900},
}
COMPONENTS_REAL = [
    "sqlfluff lexer (PyLexer, BlockTracker), Parser/ParseContext, longest_match/next_match/prune_options, grammar simple() caches, dialect modules, templaters (raw, jinja)",
    "fresh reference processes (cold zygote forks)",
]
COMPONENTS_STUBBED = [
    "ParseContext.check_parse_cache and match_algorithms.prune_options wrapped by buggify shims (skip the fast path on a PRNG-chosen subset of calls)",
    "uuid4 seeded (parse-context / cache keys)",
]
ASSUMPTIONS = [
    "'cache off' = every lookup misses; 'pruning off' = every option is tried: the stated contracts of the two optimisations",
    "inputs <= 1.5 kB; a parse exceeding 60 s is recorded as a timeout probe, not judged",
]

FIX = "/repo/test/fixtures/dialects"
DIALECTS = ["ansi", "postgres", "bigquery", "snowflake", "tsql", "mysql", "sqlite", "duckdb", "sparksql", "oracle", "redshift", "clickhouse", "exasol", "hive", "athena", "trino", "db2", "teradata", "mariadb", "materialize", "soql", "databricks", "greenplum", "vertica", "starrocks", "doris", "impala", "flink"]
COMMON = ["bigquery", "snowflake", "postgres", "tsql", "sparksql", "mysql", "ansi", "redshift", "duckdb"]
JINJA = [
    "SELECT\n    {% for c in ['a', 'b', 'c'] %}\n    {{ c }},\n    {% endfor %}\n    z\nFROM tbl\n",
    "SELECT a\nFROM tbl\n{% if true %}\nWHERE a > 1\n{% else %}\nWHERE a < 1\n{% endif %}\n",
    "{% set cols = ['x', 'y'] %}\nSELECT {{ cols | join(', ') }} FROM t\n",
    "{% for t in ['t1', 't2'] %}\nSELECT a FROM {{ t }}{% if not loop.last %}\nUNION ALL{% endif %}\n{% endfor %}\n",
    "SELECT {# comment #} a, {{ 1 + 1 }} AS two FROM tbl WHERE {% raw %}'{{x}}'{% endraw %} = b\n",
]
JINJA += [
    "{% set payment_methods = ['card', 'cash'] %}\nSELECT\n    {% for m in payment_methods %}\n    {{ m }}_amount,\n    {% endfor %}\n    order_id\nFROM orders\n",
    "{# model: daily revenue by channel #}\nSELECT a, b\nFROM tbl\n{#- trailing note about grain -#}\nWHERE a > 1\n",
    "SELECT a\nFROM tbl\n{% do log('some message for the run', info=True) if false %}\nWHERE b = 2\n",
]
TAG = re.compile(r"\{[%#].*?[%#]\}", re.S)
TOKEN = re.compile(r"\s+|[A-Za-z_][A-Za-z_0-9]*|\d+|'[^']*'|\"[^\"]*\"|.", re.S)

_FIXTURE_CACHE: dict[str, list] = {}


def fixtures(dialect: str) -> list[str]:
    if dialect not in _FIXTURE_CACHE:
        d = os.path.join(FIX, dialect)
        out = []
        try:
            for fn in sorted(os.listdir(d)):
                p = os.path.join(d, fn)
                if fn.endswith(".sql") and os.path.getsize(p) <= 1500:
                    out.append(p)
        except OSError:
            pass
        _FIXTURE_CACHE[dialect] = out
    return _FIXTURE_CACHE[dialect]


def mutate(rng: Rng, text: str, force_tag: bool = False, force_kind: Optional[str] = None) -> tuple[str, str]:
    tags = list(TAG.finditer(text))
    if tags and (force_tag or rng.chance(0.5)):
        # templated input: change letters INSIDE a template tag / comment, keeping its length, so that
        # the sibling has the same source offsets but another source text in that slice
        m = rng.choice(tags)
        pos = [i for i in range(m.start() + 2, m.end() - 2) if text[i].isalpha() and text[i] not in "setdoiforendelif"]
        if pos:
            chars = list(text)
            for i in rng.sample(pos, min(len(pos), rng.randint(1, 3))):
                chars[i] = "q" if chars[i] != "q" else "w"
            return "".join(chars), "retag"
    toks = TOKEN.findall(text)
    if len(toks) < 4:
        return text, "none"
    kind = rng.choice(["delete", "dup", "swap", "truncate", "bracket", "keyword", "quote", "replace", "replace", "replace_open", "squeeze", "squeeze", "squeeze_all", "ident_pos", "ident_pos", "odd_element", "odd_element"])
    kind = force_kind or kind
    i = rng.randrange(len(toks))
    if kind == "ident_pos":
        # a position where only an identifier is grammatical (after FROM / JOIN / AS / TABLE / INTO / UPDATE)
        # gets an identifier with an unusual LEXICAL class: matchers that go by the raw text accept it,
        # hints that go by the token type may not
        code = [j for j, t in enumerate(toks) if not t.isspace()]
        pos = [code[k_ + 1] for k_ in range(len(code) - 1)
               if toks[code[k_]].upper() in ("FROM", "JOIN", "AS", "TABLE", "INTO", "UPDATE") and (toks[code[k_ + 1]][0].isalpha() or toks[code[k_ + 1]][0] in "_\"`[")]
        if pos:
            toks[rng.choice(pos)] = rng.choice(["1e5", "2E3", "10e2", "_1", "x1e5", "e5", "\"1e5\"", "a$b", "tbl#1", "été"])
            return "".join(toks), kind
        kind = "replace"
    if kind == "odd_element":
        # a TWO-token select element at an expression start (after SELECT or a comma): an identifier of an
        # unusual lexical class followed by a literal / alias / bracket - the place where one token is tried as
        # column reference, function name, data type and alias in turn (and cached under each)
        code = [j for j, t in enumerate(toks) if not t.isspace()]
        pos = [j for j in code if toks[j].upper() == "SELECT" or toks[j] == ","]
        if pos:
            j = rng.choice(pos)
            ident = rng.choice(["2col", "1st", "1e5", "_1", "x1e5", "3rd_val", "e5", "\"2 col\"", "a$b", "été", "int", "date"])
            follow = rng.choice(["'abc'", "'x'", "\"q\"", "1", "(1)", "AS y", "y", "'a' 'b'"])
            toks.insert(j + 1, " " + ident + " " + follow + ("," if toks[j].upper() == "SELECT" else "") + " ")
            if toks[j] == ",":
                toks.insert(j + 2, ",")
            return "".join(toks), kind
        kind = "replace"
    if kind == "squeeze_all":
        # every such boundary of the text at once (`SELECT SUM(x)FROM t WHERE(a)IN(1)GROUP BY(a)`)
        keep = [t for j, t in enumerate(toks) if not (0 < j < len(toks) - 1 and t.isspace() and "\n" not in t
                and ((toks[j - 1][-1] in ")]'\"" and (toks[j + 1][0].isalpha() or toks[j + 1][0] == "_"))
                     or (toks[j + 1][0] in "(['\"" and (toks[j - 1][-1].isalnum() or toks[j - 1][-1] == "_"))))]
        if len(keep) != len(toks):
            return "".join(keep), kind
        kind = "squeeze"
    if kind == "squeeze":
        # drop the whitespace between a bracket / quote and a word (`SUM(x)FROM t`, `'a'AS b`): still
        # lexes into the same tokens, but keyword matchers that want preceding whitespace see none
        cands = [j for j in range(1, len(toks) - 1) if toks[j].isspace() and "\n" not in toks[j]
                 and ((toks[j - 1][-1] in ")]'\"" and (toks[j + 1][0].isalpha() or toks[j + 1][0] == "_"))
                      or (toks[j + 1][0] in "(['\"" and (toks[j - 1][-1].isalnum() or toks[j - 1][-1] == "_")))]
        if cands:
            del toks[rng.choice(cands)]
            return "".join(toks), kind
        kind = "delete"
    if kind in ("replace", "replace_open"):
        # count-preserving: the sibling keeps the token count and every other token's position,
        # which is what parse-cache keys (raw, position, type, max_idx) are made of. An opening
        # bracket with no partner makes the parser *raise* part-way (an aborted parse).
        code = [j for j, t in enumerate(toks) if not t.isspace()]
        i = rng.choice(code)
        # (the vocabulary mixes lexer token classes: words, keywords, numbers - also ones that LOOK like
        # identifiers to a regex, 1e5 / 2E3 -, quoted names, operators, brackets, parameters)
        new = "(" if kind == "replace_open" else rng.choice(["(", ")", ",", "x", "1", "SELECT", "FROM", "AS", "+", ";", "'s'", "1e5", "2E3", '"Q n"', "x.y", "*", "@v", "$1", "?", "_z9", "NULL", "1.5"])
        toks[i] = new
        return "".join(toks), kind
    if kind == "delete":
        del toks[i]
    elif kind == "dup":
        toks.insert(i, toks[i])
    elif kind == "swap":
        j = rng.randrange(len(toks))
        toks[i], toks[j] = toks[j], toks[i]
    elif kind == "truncate":
        toks = toks[: max(2, i)]
    elif kind == "bracket":
        toks.insert(i, rng.choice(["(", ")", "[", "]"]))
    elif kind == "keyword":
        toks.insert(i, rng.choice([" SELECT ", " FROM ", " WHERE ", " AND ", " JOIN ", " CASE ", " END "]))
    else:
        toks.insert(i, rng.choice(["'", '"', "`"]))
    return "".join(toks), kind


def gen_inputs(rng: Rng) -> tuple[list[dict], list[dict]]:
    avail = [d for d in DIALECTS if fixtures(d)]
    dialect = rng.choice(avail) if avail and rng.chance(0.8) else "ansi"
    if avail and rng.chance(0.3):
        dialect = rng.choice([d for d in COMMON if d in avail] or ["ansi"])
    inputs: list[dict] = []
    n = rng.randint(3, 5)
    for i in range(n):
        r = rng.random()
        templater = "raw"
        family = None
        if inputs and rng.chance(0.4):
            # a sibling of an earlier input: same base text, another mutation. Siblings
            # share most tokens at the same positions (what cache keys are made of).
            base = rng.choice(inputs)
            text, d, templater, src = base["base"], base["dialect"], base["templater"], base["src"]
            family = base["src"]
        elif r < 0.22:
            text = rng.choice(JINJA)
            templater = "jinja"
            src = "jinja"
            d = "ansi" if dialect not in ("ansi", "postgres", "bigquery", "snowflake") else dialect
        elif r < 0.34 or not fixtures(dialect):
            text = rng.choice(corpus("ansi"))
            src = "corpus"
            d = dialect
        else:
            p = rng.choice(fixtures(dialect))
            with open(p, encoding="utf-8", errors="replace") as f:
                text = f.read()
            src = os.path.relpath(p, FIX)
            d = dialect
            if rng.chance(0.3):
                # two fixtures in one file: statement kinds that never met in a fixture
                p2 = rng.choice(fixtures(dialect))
                with open(p2, encoding="utf-8", errors="replace") as f:
                    t2 = f.read()
                sep = "" if text.rstrip().endswith(";") else ";"
                text = (text.rstrip() + sep + "\n" + t2) if rng.chance(0.5) else (t2.rstrip() + (";" if not t2.rstrip().endswith(";") else "") + "\n" + text)
                src += "+" + os.path.relpath(p2, FIX)
        base_text = text
        mut = "none"
        if rng.chance(0.45) or family:
            text, mut = mutate(rng, text)
        inputs.append({"text": text, "base": base_text, "dialect": d, "templater": templater, "src": src, "mut": mut})
        if templater == "jinja" and not family and TAG.search(base_text) and rng.chance(0.7):
            # its twin: same template, same source offsets, other text inside one tag
            t2, m2 = mutate(rng, base_text, force_tag=True)
            if t2 != text:
                inputs.append({"text": t2, "base": base_text, "dialect": d, "templater": templater, "src": src, "mut": m2})
    if rng.chance(0.75):
        # an "aborted parse, then its near twin" pair: a multi-statement base; twin A gets an
        # opening bracket without partner in the second half (the parser raises part-way, after
        # the earlier statements were matched), twin B a count-preserving change in the first
        # half. Same token count, same positions: whatever A's parse leaves behind meets B.
        def read(pth: str) -> str:
            with open(pth, encoding="utf-8", errors="replace") as fh:
                return fh.read()

        fx = fixtures(dialect)
        parts = [read(rng.choice(fx)) if fx else rng.choice(corpus("ansi")) for _ in range(2)]
        base = parts[0].rstrip()
        base += ("" if base.endswith(";") else ";") + "\n" + parts[1]
        toks = TOKEN.findall(base)
        code = [j for j, t in enumerate(toks) if not t.isspace()]
        if len(code) >= 6:
            ta, tb = list(toks), list(toks)
            ta[rng.choice(code[len(code) // 2:])] = "("
            tb[rng.choice(code[: len(code) // 2])] = rng.choice(["(", ")", ",", "x", "1", "SELECT", "FROM", "AS", "+", ";", "'s'"])
            for role, tk in (("abort", ta), ("twin", tb)):
                inputs.append({"text": "".join(tk), "base": base, "dialect": dialect, "templater": "raw", "src": "pair", "mut": "pair_" + role, "pair": role})
    # fillers from other dialects (history)
    fillers = []
    others = [d for d in avail if d != dialect] or ["ansi"]
    for i in range(rng.randint(1, 3)):
        # dialects share grammar objects through inheritance from ansi: the widely used ones
        # (which override the most) are drawn more often as the "other" dialect of a history
        common = [d for d in COMMON if d in others]
        d2 = rng.choice(common) if common and rng.chance(0.5) else rng.choice(others)
        fx = fixtures(d2)
        if fx:
            with open(rng.choice(fx), encoding="utf-8", errors="replace") as f:
                t2 = f.read()
        else:
            t2 = rng.choice(corpus("ansi"))
        fillers.append({"text": t2, "dialect": d2, "templater": "raw"})
    return inputs, fillers


_ALL_FIXTURES: list = []


def gen_sweep(rng: Rng, n: int) -> list[dict]:
    if not _ALL_FIXTURES:
        for d in DIALECTS:
            _ALL_FIXTURES.extend((d, p_) for p_ in fixtures(d))
    out = []
    for _ in range(n if _ALL_FIXTURES else 0):
        d, p_ = rng.choice(_ALL_FIXTURES)
        with open(p_, encoding="utf-8", errors="replace") as f:
            text = f.read()
        mut = "none"
        if rng.chance(0.5):
            text, mut = mutate(rng, text)
        out.append({"text": text, "dialect": d, "src": os.path.relpath(p_, FIX), "mut": mut})
    return out


def gen_order(rng: Rng, n: int) -> dict:
    """An *order* run: n (text, dialect) items over three dialects, parsed in one process in one order and in a
    second process in another order (its reverse, half of the time). Whatever one parse leaves behind for the
    next - in the process, the dialect objects, the grammar objects dialects share by inheritance - meets a
    different successor in the two orders, and the first item of each order runs in a fresh process."""
    avail = [d for d in DIALECTS if fixtures(d)]
    if not avail:
        return {}
    common = [d for d in COMMON if d in avail] or avail
    ds = [rng.choice(common)]
    while len(ds) < min(3, len(avail)):
        d = rng.choice(common if rng.chance(0.5) else avail)
        if d not in ds:
            ds.append(d)
    items = []
    for _ in range(n):
        d = rng.choice(ds)
        if rng.chance(0.15):
            text, src = rng.choice(corpus("ansi")), "corpus"
        else:
            p_ = rng.choice(fixtures(d))
            with open(p_, encoding="utf-8", errors="replace") as f:
                text = f.read()
            src = os.path.relpath(p_, FIX)
            if rng.chance(0.3):
                # two fixtures of the dialect in one item (more statement kinds per parse)
                p2 = rng.choice(fixtures(d))
                with open(p2, encoding="utf-8", errors="replace") as f:
                    text = text.rstrip() + ("" if text.rstrip().endswith(";") else ";") + "\n" + f.read()
                src += "+" + os.path.relpath(p2, FIX)
        mut = "none"
        if rng.chance(0.7):
            # (squeezed word boundaries and identifier-position replacements are what keyword / terminator
            # hints are sensitive to)
            text, mut = mutate(rng, text, force_kind=rng.choice(["squeeze_all", "squeeze_all", "squeeze", "ident_pos", None, None]))
        # the same text under another dialect of the run: objects shared between dialects see equal tokens at
        # equal positions under two grammars
        d_use = rng.choice(ds) if rng.chance(0.3) else d
        items.append({"text": text, "dialect": d_use, "src": src, "mut": mut})
        if rng.chance(0.25):
            items.append({"text": text, "dialect": rng.choice([x for x in ds if x != d_use] or ds), "src": src, "mut": mut})
    pair = None
    if rng.chance(0.75):
        # the "aborted parse, then its near twin" pair of the full runs (see gen_inputs), as two more items:
        # adjacent in order A (abort, then twin), so in the reversed order B the twin comes BEFORE the abort
        d = rng.choice(ds)
        fx = fixtures(d)
        parts = []
        for _ in range(2):
            with open(rng.choice(fx), encoding="utf-8", errors="replace") as f:
                parts.append(f.read())
        base = parts[0].rstrip()
        base += ("" if base.endswith(";") else ";") + "\n" + parts[1]
        toks = TOKEN.findall(base)
        code = [j for j, t in enumerate(toks) if not t.isspace()]
        if len(code) >= 6:
            ta, tb = list(toks), list(toks)
            ta[rng.choice(code[len(code) // 2:])] = "("
            tb[rng.choice(code[: len(code) // 2])] = rng.choice(["(", ")", ",", "x", "1", "SELECT", "FROM", "AS", "+", ";", "'s'"])
            pair = (len(items), len(items) + 1)
            items.append({"text": "".join(ta), "dialect": d, "src": "pair", "mut": "pair_abort"})
            items.append({"text": "".join(tb), "dialect": d, "src": "pair", "mut": "pair_twin"})
    perm_a = list(range(len(items)))
    rng.shuffle(perm_a)
    if pair:
        perm_a.remove(pair[1])
        perm_a.insert(perm_a.index(pair[0]) + 1, pair[1])
    perm_b = list(reversed(perm_a))
    if rng.chance(0.5):
        # grouped by dialect, the dialect order reversed: every dialect is once the first and once the last user
        # of whatever the dialects share
        perm_a = sorted(perm_a, key=lambda i: ds.index(items[i]["dialect"]) if items[i]["dialect"] in ds else 9)
        perm_b = sorted(reversed(perm_a), key=lambda i: -ds.index(items[i]["dialect"]) if items[i]["dialect"] in ds else 9)
    return {"items": items, "perm_a": perm_a, "perm_b": perm_b}


BUGGIFY = [
    {},
    {},
    {"cache_off": 1},
    {"cache_off": 0.5},
    {"cache_off": 0.1},
    {"prune_off": 1},
    {"prune_off": 0.5},
    {"prune_off": 0.1},
    {"cache_off": 0.5, "prune_off": 0.5},
    {"cache_off": 1, "prune_off": 1},
]


def gen_history(rng: Rng, inputs: list, fillers: list) -> list[dict]:
    ops = []
    order = list(range(len(inputs))) + [rng.randrange(len(inputs)) for _ in range(rng.randint(1, 3))]
    rng.shuffle(order)
    adjacent = rng.chance(0.5)
    if adjacent:
        # members of one family (same base text) back to back, nothing in between: state left
        # behind by one parse (also an aborted one) meets the most similar next input
        fam: dict[str, list[int]] = {}
        for i in order:
            fam.setdefault(inputs[i]["src"], []).append(i)
        order = [i for k in fam for i in fam[k]]
    for n, i in enumerate(order):
        same_family = n > 0 and inputs[order[n - 1]]["src"] == inputs[i]["src"]
        if fillers and rng.chance(0.35) and not (adjacent and same_family):
            f = rng.randrange(len(fillers))
            ops.append({"op": rng.choice(["parse_filler", "lint_filler", "fix_filler"]), "filler": f})
        ops.append({"op": "parse", "input": i, "buggify": rng.choice(BUGGIFY), "shared_linter": rng.chance(0.5)})
    pair = {inp.get("pair"): k for k, inp in enumerate(inputs) if inp.get("pair")}
    if len(pair) == 2:
        at = rng.randrange(len(ops) + 1)
        sh = rng.chance(0.5)
        ops[at:at] = [{"op": "parse", "input": pair["abort"], "buggify": {}, "shared_linter": sh},
                      {"op": "parse", "input": pair["twin"], "buggify": rng.choice([{}, {}, {"prune_off": 0.5}]), "shared_linter": sh}]
    return ops


def first_diff(a: str, b: str) -> str:
    la, lb = a.splitlines(), b.splitlines()
    for i in range(min(len(la), len(lb))):
        if la[i] != lb[i]:
            return "line %d: %r vs %r (context before: %r)" % (i, la[i], lb[i], la[max(0, i - 3) : i])
    return "length %d vs %d lines" % (len(la), len(lb))


def run_one(ctx: Any, seed: int, tier: str, replay: Optional[dict] = None) -> dict:
    rng = Rng(seed)
    if replay:
        inputs, fillers, history = replay["inputs"], replay["fillers"], replay["history"]
        sweep = replay.get("sweep", [])
        order = replay.get("order") or {}
        hs_h, hs_f = replay["hashseeds"]
        node_seed = replay["node_seed"]
    else:
        inputs, fillers = gen_inputs(rng.fork("inputs"))
        sweep = gen_sweep(rng.fork("sweep"), 6 if tier == "quick" else 8)
        order = {}
        mode = rng.fork("mode").random()
        if os.environ.get("VSIM_C06_MODE") == "order":  # (experiments only)
            mode = 0.4
        if 0.33 <= mode < 0.55:
            # an order run (see gen_order): two processes, the same items in two orders
            inputs, fillers, sweep = [], [], []
            order = gen_order(rng.fork("order"), 14 if tier == "quick" else 20)
        if mode < 0.33:
            # a sweep-only run: no history, no fresh references - just many (half of them mutated) fixtures
            # parsed with defaults and with both optimisations off in one process. Forks are what is
            # expensive here, so this is the cheapest way to many optimised-vs-unoptimised comparisons.
            inputs, fillers = [], []
            sweep = gen_sweep(rng.fork("sweep-only"), 24)
        history = gen_history(rng.fork("history"), inputs, fillers) if inputs else []
        pool = ctx.hashseeds(6)
        hr = rng.fork("hashseed")
        hs_h = hr.choice(pool)
        hs_f = hr.choice([h for h in pool if h != hs_h])
        node_seed = seed
    cl = ctx.cluster
    zh = cl.zygote(hs_h, "")
    zf = cl.zygote(hs_f, "")
    root = cl.new_root("C06-%d" % seed)
    os.makedirs(os.path.join(root, "home", "u"), exist_ok=True)
    os.makedirs(os.path.join(root, "proj"), exist_ok=True)
    log: list = []
    violations: list[dict] = []
    probes: Counter = Counter()
    faults: Counter = Counter()
    nontrivial: list = []
    samples: list = []
    evaluations = 0
    node = None
    r1node = None
    try:
        # references
        R0: dict[int, dict] = {}
        R1: dict[int, dict] = {}
        for i, inp in enumerate(inputs):
            # R0: alone in a fresh process, defaults. R1 (both optimisations fully off): all inputs of the
            # run one after the other in ONE extra process (a fork is the expensive thing in this sandbox;
            # should earlier unoptimised parses influence later ones, R0 != R1 reports that just the same)
            n0 = zf.node({"name": "r0_%d" % i, "root": root, "cwd": "proj", "seed": seed + i, "knobs": {}})
            try:
                R0[i] = n0.call("parse", text=inp["text"], dialect=inp["dialect"], templater=inp["templater"])
            finally:
                n0.close()
            if r1node is None:
                r1node = zh.node({"name": "r1", "root": root, "cwd": "proj", "seed": seed + 100, "knobs": {}})
            R1[i] = r1node.call("parse", text=inp["text"], dialect=inp["dialect"], templater=inp["templater"], buggify={"cache_off": 1, "prune_off": 1})
            for k, v in R1[i].get("stats", {}).items():
                probes["ref_alloff_" + k] += v
            tdig = sha(inp["text"])[:10]
            log.append(["ref", i, inp["dialect"], tdig, R0[i].get("digest"), R1[i].get("digest"), R0[i].get("exception"), R1[i].get("timeout")])
            if "timeout" in R0[i] or "timeout" in R1[i]:
                probes["timeouts"] += 1
                continue
            evaluations += 1
            if R0[i].get("digest") != R1[i].get("digest") or R0[i].get("exception") != R1[i].get("exception"):
                what = "exception %r vs %r" % (R0[i].get("exception"), R1[i].get("exception")) if R0[i].get("exception") != R1[i].get("exception") else first_diff(R0[i].get("tree", ""), R1[i].get("tree", ""))
                violations.append({
                    "oracle": "optimised-vs-unoptimised",
                    "signature": "C06:optimisation-changes-result",
                    "message": "input #%d (%s, %s, mutation %s): default parse (fresh process) differs from the parse with cache and pruning off: %s\n violations %s vs %s\n text=%r" % (
                        i, inp["dialect"], inp["src"], inp["mut"], what, R0[i].get("violations"), R1[i].get("violations"), inp["text"][:300]),
                })
            if sum(R1[i].get("stats", {}).get(k, 0) for k in ("cache_hit_skipped", "options_unpruned")):
                nontrivial.append("%s|%s|alloff|fresh" % (tdig, inp["dialect"]))
        # sweep: fixtures drawn file-uniformly over ALL dialects (half of them token-mutated), each parsed with defaults and
        # with both optimisations off in the reference process (no fork per input): optimised == unoptimised
        t_sweep = time.time()
        for j, sw in enumerate(sweep):
            if time.time() - t_sweep > 200:
                # (wall-clock guard: counted as a timeout, which makes the run UNSTABLE = not compared)
                probes["timeouts"] += 1
                break
            if r1node is None:
                r1node = zh.node({"name": "r1", "root": root, "cwd": "proj", "seed": seed + 100, "knobs": {}})
            a = r1node.call("parse", text=sw["text"], dialect=sw["dialect"], templater="raw")
            b = r1node.call("parse", text=sw["text"], dialect=sw["dialect"], templater="raw", buggify={"cache_off": 1, "prune_off": 1})
            if "timeout" in a or "timeout" in b:
                probes["timeouts"] += 1
                continue
            evaluations += 1
            probes["sweep_pairs"] += 1
            for k, v in b.get("stats", {}).items():
                probes["ref_alloff_" + k] += v
            tdig = sha(sw["text"])[:10]
            log.append(["sweep", j, sw["dialect"], tdig, a.get("digest"), b.get("digest")])
            if sum(b.get("stats", {}).get(k, 0) for k in ("cache_hit_skipped", "options_unpruned")):
                nontrivial.append("%s|%s|alloff|sweep" % (tdig, sw["dialect"]))
            if a.get("digest") != b.get("digest") or a.get("exception") != b.get("exception"):
                what = "exception %r vs %r" % (a.get("exception"), b.get("exception")) if a.get("exception") != b.get("exception") else first_diff(a.get("tree", ""), b.get("tree", ""))
                violations.append({
                    "oracle": "optimised-vs-unoptimised",
                    "signature": "C06:optimisation-changes-result",
                    "message": "sweep input #%d (%s, %s, mutation %s): default parse differs from the parse with cache and pruning off: %s\n text=%r" % (
                        j, sw["dialect"], sw["src"], sw.get("mut"), what, sw["text"][:300]),
                })
        if r1node is not None:
            r1node.close()
            r1node = None
        # order run: the same items in two orders in two processes (other hash seed too)
        if order:
            res: dict[str, dict[int, dict]] = {"a": {}, "b": {}}
            t_ord = time.time()
            for side, zy, perm in (("a", zh, order["perm_a"]), ("b", zf, order["perm_b"])):
                nd_o = zy.node({"name": "o" + side, "root": root, "cwd": "proj", "seed": seed + (7 if side == "a" else 8), "knobs": {}})
                try:
                    for pos, i in enumerate(perm):
                        if time.time() - t_ord > 300:
                            probes["timeouts"] += 1
                            break
                        it = order["items"][i]
                        r = nd_o.call("parse", text=it["text"], dialect=it["dialect"], templater="raw", handle="shared" if (i % 2 or it.get("src") == "pair") else None)
                        if "timeout" in r:
                            probes["timeouts"] += 1
                            continue
                        res[side][i] = r
                        probes["order_parses"] += 1
                        log.append(["order", side, pos, i, it["dialect"], sha(it["text"])[:10], r.get("digest"), r.get("exception")])
                finally:
                    nd_o.close()
            pos_a = {i: k for k, i in enumerate(order["perm_a"])}
            pos_b = {i: k for k, i in enumerate(order["perm_b"])}
            for i, it in enumerate(order["items"]):
                if i not in res["a"] or i not in res["b"]:
                    continue
                evaluations += 1
                a, b = res["a"][i], res["b"][i]
                before_a = sha(repr([(order["items"][j]["dialect"], sha(order["items"][j]["text"])[:8]) for j in order["perm_a"][: pos_a[i]]]))[:10]
                if pos_a[i] or pos_b[i]:
                    nontrivial.append("%s|%s|order|%s" % (sha(it["text"])[:10], it["dialect"], before_a))
                if a.get("digest") != b.get("digest") or a.get("exception") != b.get("exception"):
                    what = "exception %r vs %r" % (a.get("exception"), b.get("exception")) if a.get("exception") != b.get("exception") else first_diff(a.get("tree", ""), b.get("tree", ""))
                    violations.append({
                        "oracle": "order-a-vs-order-b",
                        "signature": "C06:history-or-hashseed-changes-result",
                        "message": "item #%d (%s, %s, mutation %s) parsed as number %d of one process (after dialects %s) and as number %d of another (after dialects %s) gives two trees: %s\n text=%r" % (
                            i, it["dialect"], it["src"], it["mut"], pos_a[i], [order["items"][j]["dialect"] for j in order["perm_a"][: pos_a[i]]][-6:],
                            pos_b[i], [order["items"][j]["dialect"] for j in order["perm_b"][: pos_b[i]]][-6:], what, it["text"][:300]),
                    })
        # history
        if history:
            node = zh.node({"name": "h", "root": root, "cwd": "proj", "seed": node_seed, "knobs": {}})
        prefix: list = []
        parsed_before = 0
        for opi, op in enumerate(history):
            if op["op"] != "parse":
                f = fillers[op["filler"]]
                if op["op"] == "parse_filler":
                    node.call("parse", text=f["text"], dialect=f["dialect"], templater="raw", handle="shared")
                else:
                    node.call("lint_text", text=f["text"], dialect=f["dialect"], fix=op["op"] == "fix_filler")
                prefix.append("%s:%s" % (op["op"], f["dialect"]))
                probes["history_" + op["op"]] += 1
                parsed_before += 1
                continue
            i = op["input"]
            inp = inputs[i]
            if "timeout" in R0[i] or "timeout" in R1[i]:
                continue
            r = node.call("parse", text=inp["text"], dialect=inp["dialect"], templater=inp["templater"], buggify=op["buggify"],
                          handle="shared" if op["shared_linter"] else None)
            st = r.get("stats", {})
            for k, v in st.items():
                probes[k] += v
            if op["buggify"].get("cache_off"):
                faults["cache_off"] += 1
            if op["buggify"].get("prune_off"):
                faults["prune_off"] += 1
            if op["buggify"].get("next_off"):
                faults["next_off"] += 1
            tdig = sha(inp["text"])[:10]
            bkey = json.dumps(op["buggify"], sort_keys=True)
            if "timeout" in r:
                probes["timeouts"] += 1
                prefix.append("parse:%d:timeout" % i)
                continue
            evaluations += 1
            skipped = st.get("cache_hit_skipped", 0) + st.get("options_unpruned", 0) + st.get("next_match_bruteforce", 0)
            if skipped or parsed_before:
                nontrivial.append("%s|%s|%s|%s" % (tdig, inp["dialect"], bkey, sha(repr(prefix))[:10]))
            if skipped:
                probes["parses_with_fast_path_skipped"] += 1
            if parsed_before:
                probes["parses_after_history"] += 1
            same = r.get("digest") == R0[i].get("digest") and r.get("exception") == R0[i].get("exception")
            log.append([opi, i, bkey, r.get("digest"), same])
            if not same:
                what = "exception %r vs %r" % (r.get("exception"), R0[i].get("exception")) if r.get("exception") != R0[i].get("exception") else first_diff(r.get("tree", ""), R0[i].get("tree", ""))
                # attribute: optimisation or history/hash seed?
                sig = "C06:history-or-hashseed-changes-result" if not op["buggify"] else "C06:optimisation-changes-result"
                violations.append({
                    "oracle": "history-vs-fresh",
                    "signature": sig,
                    "message": "history op #%d parse of input #%d (%s, %s, mutation %s) under buggify %s after %s differs from the fresh-process parse: %s\n text=%r" % (
                        opi, i, inp["dialect"], inp["src"], inp["mut"], op["buggify"], prefix[-5:], what, inp["text"][:300]),
                })
            prefix.append("parse:%d:%s" % (i, bkey))
            parsed_before += 1
        samples.append({
            "inputs": [{k: (v if k != "text" else v[:200]) for k, v in inp.items() if k != "base"} for inp in inputs],
            "fillers": [f["dialect"] for f in fillers],
            "history": history,
            "order": {"n": len(order.get("items", [])), "dialects": sorted({it["dialect"] for it in order.get("items", [])})} if order else None,
            "hashseeds": [hs_h, hs_f],
        })
        for v in violations:
            v["replay"] = {"inputs": inputs, "fillers": fillers, "history": history, "sweep": sweep, "order": order, "hashseeds": [hs_h, hs_f], "node_seed": node_seed, "tier": tier}
    finally:
        for nd in (node, r1node):
            if nd is not None:
                try:
                    nd.close()
                except Exception:
                    pass
        cl.drop_root(root)
    uniq: dict = {}
    for v in violations:
        uniq.setdefault((v["oracle"], v["signature"]), v)
    # a parse that ran into the 60 s wall-clock cap is the one thing in a run that real time decides:
    # such a run is not comparable between two executions (it is reported, never judged)
    unstable = probes.get("timeouts", 0) > 0
    return {
        "digest": "UNSTABLE" if unstable else digest(log, root),
        "unstable": unstable,
        "evaluations": evaluations,
        "nontrivial": nontrivial,
        "violations": list(uniq.values()),
        "faults": dict(faults),
        "probes": dict(probes),
        "states": [],
        "schedules": [],
        "sim_time": 0,
        "samples": samples,
    }


def shrink_candidates(rp: dict):
    import copy

    from vsim.shrink import list_candidates

    od = rp.get("order") or {}
    if od:
        for keep in list_candidates(list(range(len(od["items"])))):
            if len(keep) >= 1:
                r = copy.deepcopy(rp)
                remap = {old: new for new, old in enumerate(keep)}
                r["order"] = {"items": [od["items"][k] for k in keep],
                              "perm_a": [remap[i] for i in od["perm_a"] if i in remap],
                              "perm_b": [remap[i] for i in od["perm_b"] if i in remap]}
                yield "drop order items", r
    for h in list_candidates(rp["history"]):
        if h:
            r = copy.deepcopy(rp)
            r["history"] = h
            yield "drop history ops", r
    used = {op["input"] for op in rp["history"] if op["op"] == "parse"}
    for i, inp in enumerate(rp["inputs"]):
        if i in used:
            lines = inp["text"].splitlines(keepends=True)
            for keep in list_candidates(lines):
                if keep:
                    r = copy.deepcopy(rp)
                    r["inputs"][i]["text"] = "".join(keep)
                    yield "shrink input %d" % i, r
