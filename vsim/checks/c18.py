"""C18 Files with template or parse errors are never modified by fix — disk-effect invariant.

Scope (DESIGN §4): the decision 'has a TMP/PRS error' is input-determined and
is taken from sqlfluff's own unfiltered result object of the same run; what
is searched is the *disk effect* under schedules, process counts, the
runaway_limit knob and write faults on neighbouring files, plus the
stdin/API outputs.
"""

from __future__ import annotations

import json
import os
from collections import Counter
from typing import Any, Optional

from vsim import seams
from vsim.cluster import digest
from vsim.rng import Rng, sha
from vsim.seams import MUTATING
from vsim.world import gen_fix_world, sql_files, unb64, world_tree

ID = "C18"
LEVEL = "exploration"
RULE = (
    "one run = a generated project mixing clean, fixable, unfixable, unparsable and template-failing files "
    "(errors optionally suppressed by noqa / ignore= / warnings=), runaway_limit in {1,2,10}, executed by 2 path "
    "scenarios (API lint_paths(apply_fixes) or CLI fix/format; processes 1/2/4 under seeded SimPool schedules; "
    "optional write fault on a neighbouring fixable file) and stdin/API scenarios on individual file contents. "
    "Invariant: every file whose own unfiltered result holds a templating/parse error, in this run or when linted alone in a fresh process (G), or that hit the fix "
    "loop limit (L) has no mutating disk op on it or its temp/suffixed sibling and unchanged bytes; stdin/API "
    "output equals input; L files report no fixes and exit code 1. evaluations = scenario executions. "
    "non-trivial iff the execution contained >= 1 file in G or L AND (paths) >= 1 other file was written in the "
    "same execution, or (stdin/API) the input was in G or L and had fixable violations; distinct = distinct "
    "(world digest, scenario digest, tape digest)."
)
TIERS = {
    "quick": {"runs": 120, "budget_s": 60, "min_runs": 4, "run_timeout_s": 240},
    "thorough": {"runs": 8000, "budget_s": 800, "min_runs": 40, "run_timeout_s": 600},
}
COMPONENTS_REAL = [
    "sqlfluff Linter.lint_paths persist gate, lint_fix_parsed loop-limit rollback, cli fix/format (_paths_fix, _stdin_fix, _handle_unparsable), api.simple.fix",
    "LintedFile.persist_tree and the stdlib write path on a real tmpfs directory",
]
COMPONENTS_STUBBED = [
    "multiprocessing.Pool -> SimPool scheduler",
    "disk seam (journal + neighbour write faults)",
    "virtual clock, seeded uuid4/temp names, progress bars off",
]
ASSUMPTIONS = [
    "ground truth for 'has a templating/parse error' is the file's own LintedFile.violations (unfiltered) in the same execution",
    "fix_even_unparsable is never enabled by the generator",
]
WARM = "rules,ansi,postgres,bigquery,snowflake"

KINDS = ["clean", "fixable", "fixable", "fixable", "unfixable", "parse_err", "parse_err", "parse_err",
         "tmpl_undef", "tmpl_undef", "tmpl_fatal", "jinja_fixable"]


def gen_scenarios(rng: Rng, world: dict) -> list[dict]:
    files = sql_files(world)
    out = []
    fixable = [f for f in files if world["meta"][f]["kind"] in ("fixable", "jinja_fixable")]
    for i in range(2):
        sc: dict[str, Any] = {
            "type": "paths",
            "via": rng.choice(["api", "cli", "cli"]),
            "cmd": rng.choice(["fix", "fix", "format"]),
            "processes": rng.choice([1, 1, 2, 2, 4]),
            "lookahead": rng.choice([1, 2, 8]),
            "dequeue": rng.choice(["fifo", "any"]),
            "backend": "forked" if rng.chance(0.15) else "inproc",
            "node_seed": rng.randrange(1 << 30),
            "plan": [],
        }
        if fixable and rng.chance(0.45):
            v = os.path.splitext(os.path.basename(rng.choice(fixable)))[0]
            cls = rng.choice(["rename", "write", "create", "chmod", "fsync", "open_r"])
            errno = {"rename": "EACCES", "write": "ENOSPC", "create": "EACCES", "chmod": "EPERM", "fsync": "EIO", "open_r": "EIO"}[cls]
            sc["plan"] = [{"cls": cls, "path": "/" + v + ".", "nth": 0, "kind": "err", "errno": errno}]
        broken = [f_ for f_ in files if world["meta"][f_]["kind"] in ("parse_err", "tmpl_undef")]
        if broken and not sc["plan"] and rng.chance(0.2):
            # every raw read of ONE unparsable file comes back short (legal for raw I/O): whoever takes a
            # single read for the whole file sees a prefix that may well parse
            v = os.path.basename(rng.choice(broken))
            sc["plan"] = [{"cls": "open_r", "path": "/" + v, "repeat": True, "kind": "short_read", "bytes": rng.choice([30, 60, 120])}]
        # slow-worker fault for the parallel runs: one submission outlasts all others
        sc["straggler"] = rng.choice([None, None, 0, 1, 3]) if sc["processes"] > 1 else None
        out.append(sc)
    suppressed = [f for f in files if world["meta"][f].get("suppress") not in (None, "none")] or [
        f for f in files if world["meta"][f]["kind"] in ("parse_err", "tmpl_undef")
    ]
    loopy = [f for f in files if world["meta"][f]["kind"] in ("fixable", "jinja_fixable")] if world["cfg"]["runaway_limit"] < 10 else []
    for i in range(2):
        pick_loopy = bool(loopy) and rng.chance(0.6)
        if pick_loopy:
            f = rng.choice(loopy)
        else:
            f = rng.choice(suppressed) if suppressed and rng.chance(0.6) else rng.choice(files)
        out.append(
            {
                # (a string whose fix loop does not converge is best watched through the API, which
                # hands back the string itself)
                "type": rng.choice(["stdin", "api", "api"]) if pick_loopy else rng.choice(["stdin", "stdin", "api"]),
                "file": f,
                "cmd": rng.choice(["fix", "fix", "format"]),
                "stdin_filename": rng.chance(0.5),
                "node_seed": rng.randrange(1 << 30),
            }
        )
    return out


def _files(tree: dict) -> dict:
    return {k: v for k, v in tree.items() if v[0] is not None}


def _stem(rel: str) -> str:
    return os.path.splitext(rel)[0]


def check_paths(world: dict, sc: dict, out: dict, events: list, initial: dict, after: dict, probes: Counter, g_ref: Optional[set] = None):
    """-> (violations, nontrivial?)"""
    cwd = world["cwd"]
    suffix = world["suffix"]
    vio: list[tuple] = []
    mon = out.get("mon", {})
    G: dict[str, str] = {}
    perfile = {}
    for f in mon.get("files", []):
        rel = os.path.normpath(os.path.join(cwd, f["path"]))
        perfile[rel] = f
        if f.get("tmp_prs_unfiltered", 0) > 0:
            G[rel] = "templating/parse error (unfiltered count %d)" % f["tmp_prs_unfiltered"]
    for rel in sorted(g_ref or ()):
        if rel not in G and rel in perfile:
            # sqlfluff did not report the error in THIS run although the same file,
            # linted alone in a fresh process, has one
            G[rel] = "templating/parse error when linted alone in a fresh process (not reported in this run)"
            probes["G_only_by_fresh_reference"] += 1
    L = set()
    for e in events:
        if e and e[0] == "looplimit" and e[2]:
            L.add(os.path.normpath(os.path.join(cwd, e[2])))
    for rel in L:
        G.setdefault(rel, "fix loop limit reached")
    # files for which fixing unparsable code IS explicitly enabled (their own nested config / inline
    # directive) are outside the invariant - every other file stays inside it
    for rel in [r_ for r_ in G if world["meta"].get(r_, {}).get("feu") and "loop" not in G[r_]]:
        del G[rel]
        probes["G_exempt_fix_even_unparsable"] += 1
    probes["files_in_G"] += sum(1 for v in G.values() if "loop" not in v)
    probes["files_in_L"] += len(L)
    muts = [e for e in events if e and e[0] == "disk" and e[3] in MUTATING]
    written = set()
    for e in muts:
        written.add(e[4])
    for rel, why in sorted(G.items()):
        stem = _stem(rel)
        hits = [e for e in muts if e[4] == rel or e[4].startswith(stem + ".") or (suffix and e[4].startswith(stem + suffix))]
        if hits:
            vio.append(("journal", "file %s has a %s but the fix run performed mutating disk ops on it: %s" % (rel, why, [[h[3], h[4]] for h in hits[:4]])))
        if rel in initial and after.get(rel) != initial[rel]:
            vio.append(("bytes", "file %s has a %s but its bytes/mode changed during the fix run" % (rel, why)))
        if suffix:
            r, e2 = os.path.splitext(rel)
            if r + suffix + e2 in after:
                vio.append(("suffix", "file %s has a %s but a fixed-suffix copy was written" % (rel, why)))
    # loop-limit files: violations reported unfixable, exit code 1
    if L and "exception" not in out and "crashed" not in out:
        recs = None
        if "records" in out:
            recs = {os.path.normpath(os.path.join(cwd, r["filepath"])): r["violations"] for r in out["records"]}
        for rel in sorted(L):
            if recs is not None and rel in recs:
                bad = [v for v in recs[rel] if v.get("fixes")]
                if bad:
                    vio.append(("looplimit-fixes", "file %s hit the fix loop limit but still reports fixes: %s" % (rel, bad[0].get("code"))))
        if sc["via"] == "cli" and out.get("exit_code") == 0:
            has_lint = any(perfile[r]["violations"] for r in L if r in perfile)
            if has_lint:
                vio.append(("looplimit-exit", "a file hit the fix loop limit but the CLI exit code is 0"))
    others_written = any(not any(w == g or w.startswith(_stem(g) + ".") for g in G) for w in written)
    return vio, bool(G) and others_written


def run_one(ctx: Any, seed: int, tier: str, replay: Optional[dict] = None) -> dict:
    rng = Rng(seed)
    if replay:
        world = replay["world"]
        scenarios = [replay["scenario"]]
        hs = replay["hashseed"]
        warm = replay.get("warm", WARM)
    else:
        # swarm: some worlds are dominated by one error kind (several files failing the
        # same way next to each other), some are mixed
        flavour = rng.fork("flavour").choice(["mixed", "mixed", "undef", "parse", "loop"])
        kinds = {"mixed": KINDS,
                 "undef": ["tmpl_undef", "tmpl_undef", "tmpl_undef", "fixable", "clean", "jinja_fixable"],
                 "parse": ["parse_err", "parse_err", "parse_err", "fixable", "clean"],
                 "loop": ["fixable", "fixable", "fixable", "jinja_fixable", "parse_err"]}[flavour]
        feats = {"kinds": kinds, "runaway": [10, 10, 2, 1] if flavour != "loop" else [1, 1, 2], "min_files": 3, "max_files": 7, "ignore_file": False, "feu": 0.25}
        if flavour == "undef":
            feats["templater"] = ["jinja"]
        world = gen_fix_world(rng.fork("world"), feats)
        scenarios = gen_scenarios(rng.fork("scenario"), world)
        hr = rng.fork("hashseed")
        hs = hr.choice(ctx.hashseeds(2))
        warm = WARM if hr.chance(0.85) else ""
    cl = ctx.cluster
    z = cl.zygote(hs, warm)
    root = cl.new_root("C18-%d" % seed)
    initial = world_tree(world)
    wdig = sha(json.dumps(world["files"], sort_keys=True))[:10]
    log: list = []
    violations: list[dict] = []
    probes: Counter = Counter()
    faults: Counter = Counter()
    nontrivial: list = []
    schedules: list = []
    samples: list = []
    sim_time = 0
    evaluations = 0
    try:
        # independent ground truth: every file built to carry an error is linted ALONE
        # in its own fresh process (no history, no neighbours)
        g_ref: set = set()
        if replay and "g_ref" in replay:
            g_ref = set(replay["g_ref"])
        else:
            seams.restore_tree(root, initial)
            for rel in sorted(world["meta"]):
                if world["meta"][rel]["kind"] in ("parse_err", "tmpl_undef", "tmpl_fatal"):
                    rn = z.node({"name": "ref", "root": root, "cwd": world["cwd"], "seed": seed, "knobs": {"journal_reads": False}})
                    try:
                        ro = rn.call("lint_paths", paths=[os.path.relpath(rel, world["cwd"])], processes=1)
                    finally:
                        rn.close()
                    mf = ro.get("mon", {}).get("files", [])
                    if mf and mf[0].get("tmp_prs_unfiltered", 0) > 0:
                        g_ref.add(rel)
                    probes["fresh_reference_lints"] += 1
        for si, sc in enumerate(scenarios):
            seams.restore_tree(root, initial)
            events: list = []
            knobs = {
                "lookahead": sc.get("lookahead", 2),
                "dequeue": sc.get("dequeue", "fifo"),
                "pool_backend": sc.get("backend", "inproc"),
                "journal_reads": any(p_.get("cls") == "open_r" for p_ in sc.get("plan") or []),
                "straggler": sc.get("straggler"),
            }
            if knobs["journal_reads"]:
                knobs["worker_plan"] = sc["plan"]  # reads happen in the worker under processes > 1
            n = z.node({"name": "s%d" % si, "root": root, "cwd": world["cwd"], "seed": sc["node_seed"], "knobs": knobs, "tape": sc.get("tape")}, sink=events)
            try:
                if sc["type"] == "paths":
                    if sc["via"] == "api":
                        out = n.call("lint_paths", paths=["."], fix=True, apply_fixes=True, processes=sc["processes"],
                                     fixed_file_suffix=world["suffix"], plan=sc["plan"], retain_files=True)
                    else:
                        argv = [sc["cmd"], ".", "-p", str(sc["processes"])]
                        if world["suffix"]:
                            argv += ["--fixed-suffix", world["suffix"]]
                        out = n.call("cli", argv=argv, plan=sc["plan"])
                else:
                    text = unb64(world["files"][sc["file"]]["b64"]).decode("utf-8")
                    relf = os.path.relpath(sc["file"], world["cwd"])
                    if sc["type"] == "stdin":
                        argv = [sc["cmd"], "-"]
                        if sc["stdin_filename"]:
                            argv += ["--stdin-filename", relf]
                        out = n.call("cli", argv=argv, stdin=text)
                    else:
                        out = n.call("api_fix", sql=text, kwargs={"config_path": ".sqlfluff"})
                pool = dict(n.pool)
                fired = dict(n.fired)
            finally:
                tape = n.close()
            evaluations += 1
            after = seams.snapshot_tree(root)
            sim_time += pool.get("clock", 0)
            for k, v in fired.items():
                if ":" not in k:
                    faults[k] += v
            tdig = sha(repr(tape))[:10]
            schedules.append(tdig)
            sdig = sha(json.dumps({k: v for k, v in sc.items() if k != "tape"}, sort_keys=True))[:10]
            vs: list[tuple] = []
            nt = False
            if sc["type"] == "paths":
                vs, nt = check_paths(world, sc, out, events, initial, after, probes, g_ref)
                probes["paths_exec_%s_p%d" % (sc["via"], sc["processes"])] += 1
                if fired.get("err"):
                    probes["neighbour_write_fault_fired"] += 1
            else:
                mf = out.get("mon", {}).get("files", [])
                inG = (bool(mf) and mf[0].get("tmp_prs_unfiltered", 0) > 0) or sc["file"] in g_ref
                inL = any(e and e[0] == "looplimit" for e in events)
                fixable = bool(mf) and mf[0].get("fixable", 0) > 0
                if _files(after) != _files(initial):
                    vs.append(("stdin-disk", "a stdin/API fix changed files on disk"))
                res = out.get("stdout") if sc["type"] == "stdin" else out.get("fixed")
                probes["%s_exec" % sc["type"]] += 1
                if inG and not inL and world["meta"].get(sc["file"], {}).get("feu"):
                    probes["G_exempt_fix_even_unparsable"] += 1  # explicitly enabled for this very file
                elif (inG or inL) and "exception" not in out:
                    probes["%s_input_in_G_or_L" % sc["type"]] += 1
                    if res != text:
                        why = "templating/parse error" if inG else "fix loop limit"
                        vs.append((
                            "%s-output" % sc["type"],
                            "%s fix of %s (which has a %s) returned modified text:\n input=%r\n output=%r" % (sc["type"], sc["file"], why, text[-160:], (res or "")[-160:]),
                        ))
                    nt = fixable or inL
                if inL and sc["type"] == "stdin" and out.get("exit_code") == 0 and mf and mf[0]["violations"]:
                    vs.append(("looplimit-exit", "stdin fix hit the loop limit but exit code is 0"))
            if nt:
                nontrivial.append("%s|%s|%s" % (wdig, sdig, tdig))
            log.append([si, sc["type"], sdig, tdig, sorted((k, sha(repr(v))[:8]) for k, v in after.items()), [v[0] for v in vs],
                        out.get("exit_code"), out.get("exception")])
            for oracle, msg in vs:
                sig = "C18:" + oracle
                if oracle == "api-output":
                    sig = "F6:api.simple.fix-gates-on-filtered-tmp-prs-count"
                sc2 = dict(sc)
                sc2["tape"] = tape
                violations.append({"oracle": oracle, "signature": sig, "message": msg,
                                   "replay": {"world": world, "scenario": sc2, "hashseed": hs, "warm": warm, "tier": tier, "g_ref": sorted(g_ref)}})
            if not samples and sc["type"] == "paths":
                samples.append({
                    "files": {k: {"kind": v.get("kind"), "suppress": v.get("suppress")} for k, v in world["meta"].items()},
                    "root_config": world["cfg"]["root_core"],
                    "scenario": {k: v for k, v in sc.items() if k != "tape"},
                    "G_L_files": sorted(os.path.normpath(os.path.join(world["cwd"], f["path"])) for f in out.get("mon", {}).get("files", []) if f.get("tmp_prs_unfiltered")),
                    "persisted": [p["path"] for p in out.get("mon", {}).get("persist", [])],
                })
    finally:
        cl.drop_root(root)
    uniq: dict = {}
    for v in violations:
        uniq.setdefault((v["oracle"], v["signature"]), v)
    return {
        "digest": digest(log, root),
        "evaluations": evaluations,
        "nontrivial": nontrivial,
        "violations": list(uniq.values()),
        "faults": dict(faults),
        "probes": dict(probes),
        "states": [],
        "schedules": schedules,
        "sim_time": sim_time,
        "samples": samples,
    }


def shrink_candidates(rp: dict):
    import copy

    from vsim.shrink import drop_world_files, tape_candidates

    def fix(r: dict, removed: set) -> bool:
        sc = r["scenario"]
        if sc.get("file") in removed:
            return False
        return len(r["world"]["meta"]) >= 1

    yield from drop_world_files(rp, fixups=fix)
    sc = rp["scenario"]
    for t in tape_candidates(sc.get("tape") or []):
        r = copy.deepcopy(rp)
        r["scenario"]["tape"] = t
        yield "tape", r
    if sc.get("plan"):
        r = copy.deepcopy(rp)
        r["scenario"]["plan"] = []
        yield "no fault plan", r
    if sc.get("processes", 1) > 2:
        r = copy.deepcopy(rp)
        r["scenario"]["processes"] = 2
        yield "processes=2", r
