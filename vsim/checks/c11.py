"""C11 Fixing preserves all untouched text byte-for-byte — stored-byte corruption at the file seam."""

from __future__ import annotations

import codecs
import json
import os
import re
from collections import Counter
from typing import Any, Optional

from vsim import seams
from vsim.cluster import digest
from vsim.rng import Rng, sha
from vsim.seams import MUTATING
from vsim.world import FIXABLE, b64, corpus, ini, unb64

ID = "C11"
LEVEL = "exploration"
RULE = (
    "one run = 1-4 files, each (corpus SQL + 0-3 injected fixable violations) x project encoding (autodetect, utf-8, "
    "utf-8-sig, cp1252, latin-1, ascii, utf-16 with BOM) x line endings (LF, CRLF, CR, mixed), with k in 0..3 "
    "stored-byte corruptions (byte runs invalid in the file's encoding) placed inside comments and string literals; "
    "fixed through Linter.lint_paths(apply_fixes) or CLI fix, serial or under a seeded SimPool schedule. Oracle: with "
    "the byte sequences of every generated comment and string literal (text no rule may rewrite, including the corrupt "
    "runs and non-ASCII text) must still be present byte-for-byte in the rewritten file (sqlfluff's own patch for an "
    "untemplated file is the whole file, so patch ranges cannot serve as the oracle); files with zero fixable violations must have no mutating disk "
    "op and unchanged (inode, mtime, mode, bytes). evaluations = files judged. non-trivial iff (the file was rewritten AND "
    ">=1 corrupt run sits in a protected token) or (zero fixable violations, judged for not-rewritten); distinct = distinct "
    "(file bytes digest, encoding, scenario digest)."
)
TIERS = {
    "quick": {"runs": 150, "budget_s": 60, "min_runs": 4, "run_timeout_s": 240},
    "thorough": {"runs": 10000, "budget_s": 800, "min_runs": 40, "run_timeout_s": 600},
}
COMPONENTS_REAL = [
    "sqlfluff get_encoding (chardet), load_raw_file_and_config (errors=backslashreplace), render_string newline normalisation, generate_source_patches/fix_string, persist_tree/_safe_create_replace_file",
    "CPython codecs / TextIOWrapper on a real tmpfs directory",
]
COMPONENTS_STUBBED = ["disk seam (journal; stored-byte corruption is applied to the world before the run)", "multiprocessing.Pool -> SimPool", "virtual clock, seeded uuid4/temp names"]
ASSUMPTIONS = [
    "the source patches are the ones sqlfluff itself computed in the same run (LintedFile at persist time)",
    "'encoding' is the codec name sqlfluff reports for the file",
]
WARM = "rules,ansi"

BAD = {
    "utf-8": [b"\xff", b"\xc3", b"\xe2\x98", b"\x80", b"\xfe\xff"],
    "utf-8-sig": [b"\xff", b"\xc3", b"\x80"],
    "cp1252": [b"\x81", b"\x8d", b"\x90", b"\x9d"],
    "ascii": [b"\xe9", b"\xff", b"\x80"],
}
GARNISH = {
    "utf-8": "naïve café ☃ 中文",
    "utf-8-sig": "naïve café ☃",
    "utf-16": "naïve café ☃ 中文",
    "cp1252": "naïve café déjà vu über",
    "latin-1": "naïve café déjà vu",
    "ascii": "plain ascii only",
    "autodetect": "naïve café ☃ 中文",
}


def gen_world(rng: Rng) -> dict:
    enc_cfg = rng.choice(["autodetect", "autodetect", "autodetect", "utf-8", "utf-8", "utf-8-sig", "cp1252", "latin-1", "ascii", "utf-16"])
    file_enc = {"autodetect": rng.choice(["utf-8", "utf-8", "utf-8-sig", "cp1252", "cp1252", "utf-16"])}.get(enc_cfg, enc_cfg)
    files: dict[str, dict] = {}
    meta: dict[str, dict] = {}
    n = rng.randint(1, 4)
    for i in range(n):
        name = "f%d.sql" % i
        text = rng.choice(corpus("ansi"))
        long_file = rng.chance(0.07)
        if long_file:
            # > 8 KiB so that anything which only looks at the head of a file shows
            parts = []
            while sum(len(p_) for p_ in parts) < rng.choice([8500, 9500, 12000]):
                parts.append(rng.choice(corpus("ansi")).rstrip("\n") + "\n;\n\n")
            text = "".join(parts).rstrip("\n;") + "\n"
        jinja_tags: list[str] = []
        if rng.chance(0.35) and not long_file:
            # templated file (jinja is the default templater): template tags, comments and expressions
            # are source-only text that no fix may touch; the SQL around them carries the violations
            variant = rng.choice(["for", "if", "set", "comment", "trim", "for_ws", "for_ws", "for_ws", "src_run", "src_run", "src_run"])
            if variant == "for":
                jinja_tags = ["{% for c in ['a', 'b'] %}", "{{ c }},", "{% endfor %}"]
                block = "SELECT\n    {% for c in ['a', 'b'] %}\n        {{ c }},\n    {% endfor %}\n    z\nFROM tbl\n"
            elif variant == "for_ws":
                # a loop rendered several times whose body holds source-only tags followed by trailing
                # whitespace: the same source position is patched once per iteration, in templated order
                inner = rng.choice(["{# one column per entry #}", "{% if true %}{% endif %}", "{% set unused = 1 %}"])
                ws = rng.choice(["  ", " ", "\t"])
                jinja_tags = ["{% for c in ['a', 'b', 'd'] %}", inner, "{{ c }},", "{% endfor %}"]
                block = "SELECT\n    {% for c in ['a', 'b', 'd'] %}\n        " + inner + ws + "\n        {{ c }},\n    {% endfor %}\n    z\nFROM tbl\n"
            elif variant == "src_run":
                # a run of 1-3 ADJACENT source-only elements (each with its own text, so each is a protected
                # token of its own), mostly followed by trailing whitespace that a fix deletes: the patch for the
                # whitespace maps back to a source range that touches zero-width template slices on one side
                pool = ["{# note one #}", "{# second remark #}", "{% set u1 = 1 %}", "{% set u2 = 'x' %}", "{% if 1 == 1 %}{% endif %}", "{# third #}"]
                elems = rng.sample(pool, rng.choice([1, 2, 2, 3]))
                run = rng.choice(["", "", " "]).join(elems)
                ws = rng.choice(["  ", " ", "\t", "  ", ""])
                jinja_tags = list(elems)
                where = rng.choice(["line_end", "own_line", "loop", "file_end"])
                if where == "line_end":
                    block = "SELECT a, b" + rng.choice(["", " "]) + run + ws + "\nFROM tbl\n"
                elif where == "own_line":
                    block = "SELECT a\n" + run + ws + "\nFROM tbl\n"
                elif where == "file_end":
                    block = "SELECT a\nFROM tbl" + rng.choice(["", " ", "\n"]) + run + ws + "\n"
                else:
                    jinja_tags = ["{% for c in ['a', 'b', 'd'] %}"] + elems + ["{{ c }},", "{% endfor %}"]
                    block = "SELECT\n    {% for c in ['a', 'b', 'd'] %}\n        " + run + ws + "\n        {{ c }},\n    {% endfor %}\n    z\nFROM tbl\n"
            elif variant == "if":
                jinja_tags = ["{% if true %}", "{% else %}", "{% endif %}"]
                block = "SELECT a\nFROM tbl\n{% if true %}\n    WHERE a > 1\n{% else %}\n    WHERE a < 1\n{% endif %}\n"
            elif variant == "set":
                jinja_tags = ["{% set colname = 'a' %}", "{{ colname }}"]
                block = "{% set colname = 'a' %}\nSELECT {{ colname }}\nFROM tbl\n"
            elif variant == "comment":
                jinja_tags = ["{# keep this note #}", "{{ 1 + 1 }}"]
                block = "{# keep this note #}\nSELECT {{ 1 + 1 }} AS two\nFROM tbl\n"
            else:
                jinja_tags = ["{%- if true -%}", "{%- endif %}"]
                block = "SELECT a\nFROM tbl\n{%- if true -%}\n    WHERE a > 1\n{%- endif %}\n"
        else:
            block = None
        ninj = rng.choice([0, 1, 2, 3])
        inj = []
        for _ in range(ninj):
            nm = rng.choice(sorted(FIXABLE))
            if block is not None and nm in ("no_final_newline", "extra_final_newlines"):
                continue
            t2 = FIXABLE[nm](rng, text)
            if t2 and t2 != text:
                text = t2
                inj.append(nm)
        if block is not None:
            # the templated block goes last and stays as generated: its own violations (if any) are then
            # the last patches of the file in source order
            text = text.rstrip("\n") + "\n;\n\n" + block
        k = rng.choice([0, 1, 1, 2, 3]) if file_enc in BAD else 0
        marks = []
        pieces = []
        g = GARNISH[file_enc if enc_cfg != "autodetect" else "autodetect"] if file_enc != "cp1252" else GARNISH["cp1252"]
        if file_enc == "ascii":
            g = GARNISH["ascii"]
        head = "-- " + g
        for j in range(k):
            where = rng.choice(["head_comment", "tail_comment", "string", "block_comment"])
            tok = "@@K%d@@" % j
            marks.append((tok, rng.choice(BAD[file_enc]), where))
            if where == "head_comment":
                head += " " + tok + " x"
            elif where == "tail_comment":
                pieces.append(("tail", tok))
            elif where == "string":
                pieces.append(("string", tok))
            else:
                pieces.append(("block", tok))
        # characters that str.splitlines() treats as line boundaries but SQL (and sqlfluff's newline
        # normalisation) does not: inside a literal / a comment they are ordinary text to preserve
        exotic = ["\x0c", "\x0b", "\x1c", "\x1e"]
        if file_enc in ("utf-8", "utf-8-sig", "utf-16"):
            exotic += ["\u2028", "\u2029", "\x85"]
        elif file_enc == "latin-1":
            exotic += ["\x85"]
        if rng.chance(0.35):
            pieces.append((rng.choice(["xstring", "xcomment"]), rng.choice(exotic)))
        body = (head + "\n" + text) if not long_file else (text.rstrip("\n") + "\n" + head + "\n")
        for kind, tok in pieces:
            b = body.rstrip("\n")
            if kind == "tail":
                body = b + "\n-- trailing note %s end\n" % tok
            elif kind == "string":
                body = b + "\n;\n\nSELECT 'lit%sx' AS s\nFROM tbl\n" % tok
            elif kind == "xstring":
                body = b + "\n;\n\nSELECT 'ab%scd' AS e\nFROM tbl\n" % tok
            elif kind == "xcomment":
                body = b + "\n-- note ab%scd\n" % tok
            else:
                body = b + "\n/* block %s comment */\n" % tok
        nl = rng.choice(["lf", "lf", "crlf", "cr", "mixed"])
        if nl == "crlf":
            body = body.replace("\n", "\r\n")
        elif nl == "cr":
            body = body.replace("\n", "\r")
        elif nl == "mixed":
            parts = body.split("\n")
            body = "".join(p + rng.choice(["\n", "\r\n"]) for p in parts[:-1]) + parts[-1]
        if file_enc == "utf-16":
            data = rng.choice([b"\xff\xfe" + body.encode("utf-16-le"), b"\xfe\xff" + body.encode("utf-16-be")])
        else:
            data = body.encode(file_enc)
        # protected tokens: comment text / string literal content no rule may rewrite
        def enc_tok(t: str) -> bytes:
            if file_enc == "utf-16":
                return t.encode("utf-16-le" if data[:2] == b"\xff\xfe" else "utf-16-be")
            return t.encode("utf-8" if file_enc == "utf-8-sig" else file_enc)

        protected = [enc_tok("-- " + g)]
        for kind, tok in pieces:
            if kind == "tail":
                protected.append(enc_tok("-- trailing note %s end" % tok))
            elif kind == "string":
                protected.append(enc_tok("'lit%sx'" % tok))
            elif kind == "xstring":
                protected.append(enc_tok("'ab%scd'" % tok))
            elif kind == "xcomment":
                protected.append(enc_tok("-- note ab%scd" % tok))
            else:
                protected.append(enc_tok("/* block %s comment */" % tok))
        for jt in jinja_tags:
            protected.append(enc_tok(jt))
        if any(m[2] == "head_comment" for m in marks):
            protected[0] = enc_tok(head)
        for tok, bad, where in marks:
            data = data.replace(tok.encode("ascii"), bad)
            protected = [p.replace(tok.encode("ascii"), bad) for p in protected]
        files["proj/" + name] = {"b64": b64(data), "mode": rng.choice([0o644, 0o600, 0o664])}
        meta["proj/" + name] = {"file_enc": file_enc, "newline": nl, "inj": inj, "jinja": jinja_tags, "exotic": [repr(t) for k_, t in pieces if k_ in ("xstring", "xcomment")], "corrupt": [[m[1].hex(), m[2]] for m in marks],
                                "protected": [b64(p) for p in protected], "bad": [m[1].hex() for m in marks], "long": long_file}
    core: dict[str, Any] = {"dialect": "ansi"}
    if enc_cfg != "autodetect":
        core["encoding"] = enc_cfg
    files["proj/.sqlfluff"] = {"b64": b64(ini({"sqlfluff": core})), "mode": 0o644}
    return {"files": files, "dirs": ["home/u", "proj"], "cwd": "proj", "meta": meta, "enc_cfg": enc_cfg}


def tree_of(world: dict) -> dict:
    t: dict[str, Any] = {}
    for d in world["dirs"]:
        t[d + "/"] = (None, 0o755)
    for rel, f in world["files"].items():
        t[rel] = (unb64(f["b64"]), f["mode"])
    return t


NL = re.compile(r"\r\n|\r")


def se_decode(data: bytes, enc: str) -> Optional[str]:
    try:
        return data.decode(enc, "surrogateescape")
    except Exception:
        return None


def escape_spelling(tok: bytes, bads: list, enc: str) -> bytes:
    """The token as an errors='backslashreplace' read + re-encode spells it."""
    e = "utf-8" if enc == "utf-8-sig" else enc
    try:
        return tok.decode(e, "backslashreplace").encode(e)
    except Exception:
        return tok


def _chardet_whole_file(data: bytes) -> str:
    try:
        import chardet

        return (chardet.detect(data).get("encoding") or "utf-8").lower()
    except Exception:
        return "?"


def judge_file(rel: str, before: bytes, after: bytes, m: dict, enc: str, file_enc: str):
    """Protected tokens (comment text, string-literal content) must survive byte-for-byte.

    -> (violation or None, nontrivial?, info)
    """
    if after == before:
        return None, False, "unchanged"
    prot = [unb64(p) for p in m["protected"]]
    bads = [bytes.fromhex(h) for h in m["bad"]]
    swapped = False
    if file_enc == "utf-16" and before[:2] != after[:2] and after[:2] in (b"\xff\xfe", b"\xfe\xff"):
        # both byte orders are "utf-16" to sqlfluff: compare in the other order
        swapped = True
    nontrivial = False
    for bom in (codecs.BOM_UTF8, codecs.BOM_UTF16_LE, codecs.BOM_UTF16_BE):
        if before.startswith(bom):
            fam = (codecs.BOM_UTF8,) if bom == codecs.BOM_UTF8 else (codecs.BOM_UTF16_LE, codecs.BOM_UTF16_BE)
            if not after.startswith(fam):
                return ("C11:bom-or-encoding-changed", "%s (detected %s): the file started with BOM %r, the rewritten file starts with %r" % (
                    rel, enc, bom, after[:4])), True, "diff"
    for tok in prot:
        has_bad = any(b in tok for b in bads)
        t = tok
        if swapped:
            t = tok.decode("utf-16-le" if before[:2] == b"\xff\xfe" else "utf-16-be").encode(
                "utf-16-le" if after[:2] == b"\xff\xfe" else "utf-16-be")
        if has_bad:
            nontrivial = True
        if t in after:
            continue
        sig = "C11:protected-text-changed"
        if has_bad and escape_spelling(tok, bads, file_enc) in after:
            sig = "F1:undecodable-bytes-rewritten-as-backslashreplace-text"
        else:
            # the same defect reached through autodetection: the encoding sqlfluff DETECTED (e.g. utf-8 for
            # a cp1252 file) cannot decode bytes of this token, and exactly their backslashreplace spelling
            # in that encoding is what the file holds now
            try:
                tok.decode("utf-8" if enc.lower().replace("_", "-") in ("utf-8-sig", "utf8") else enc)
                undecodable = False
            except (UnicodeDecodeError, LookupError):
                undecodable = True
            if undecodable and escape_spelling(tok, bads, enc) in after and _chardet_whole_file(before) == enc.lower():
                # ... and that encoding is chardet's own answer for the WHOLE file (what the unchanged
                # get_encoding asks for): the library's misdetection, not a deviation of sqlfluff's
                # detection logic - any other detected encoding stays an unlisted violation
                sig = "F8:autodetected-encoding-cannot-decode-the-file-escapes-written-back"
        k = 0
        msg = "%s (detected %s): comment/string text %r is not present in the fixed file any more (file now: %r...)" % (
            rel, enc, tok, after[:120])
        return (sig, msg), nontrivial, "diff"
    return None, nontrivial, "ok"


def run_one(ctx: Any, seed: int, tier: str, replay: Optional[dict] = None) -> dict:
    rng = Rng(seed)
    if replay:
        world = replay["world"]
        sc = replay["scenario"]
        hs = replay["hashseed"]
    else:
        world = gen_world(rng.fork("world"))
        r = rng.fork("scenario")
        sc = {
            "via": r.choice(["api", "api", "api", "cli"]),
            "processes": r.choice([1, 1, 2, 3]),
            "lookahead": r.choice([1, 2, 8]),
            "dequeue": r.choice(["fifo", "any"]),
            "backend": "forked" if r.chance(0.15) else "inproc",
            "node_seed": r.randrange(1 << 30),
            "bufsize": r.choice([8192, 8192, 16, 64]),
            "rawmax": r.choice([0, 0, 7, 33]),
        }
        # read-side faults on ONE file: its n-th open fails once (the first open is the encoding sniff,
        # the second the real read), or every raw read of it comes back short
        if r.chance(0.25):
            victim = r.choice(sorted(world["meta"]))
            if r.chance(0.6):
                sc["read_fault"] = {"cls": "open_r", "path": "/" + os.path.basename(victim), "nth": r.choice([0, 0, 1]), "kind": "err", "errno": r.choice(["EIO", "EACCES", "EMFILE"])}
            else:
                sc["read_fault"] = {"cls": "open_r", "path": "/" + os.path.basename(victim), "repeat": True, "kind": "short_read", "bytes": r.choice([7, 64, 300])}
        hs = rng.fork("hashseed").choice(ctx.hashseeds(2))
    cl = ctx.cluster
    z = cl.zygote(hs, WARM)
    root = cl.new_root("C11-%d" % seed)
    initial = tree_of(world)
    log: list = []
    violations: list[dict] = []
    probes: Counter = Counter()
    faults: Counter = Counter()
    nontrivial: list = []
    samples: list = []
    evaluations = 0
    tape: list = []
    try:
        seams.restore_tree(root, initial)
        meta0 = seams.snapshot_meta(root)
        events: list = []
        rplan = [sc["read_fault"]] if sc.get("read_fault") else []
        knobs = {"lookahead": sc["lookahead"], "dequeue": sc["dequeue"], "pool_backend": sc["backend"], "journal_reads": bool(rplan),
                 "record_patches": True, "bufsize": sc["bufsize"], "rawmax": sc["rawmax"], "worker_plan": rplan}
        n = z.node({"name": "n0", "root": root, "cwd": world["cwd"], "seed": sc["node_seed"], "knobs": knobs, "tape": sc.get("tape")}, sink=events)
        try:
            if sc["via"] == "api":
                out = n.call("lint_paths", paths=["."], fix=True, apply_fixes=True, processes=sc["processes"], retain_files=True, plan=rplan or None)
            else:
                out = n.call("cli", argv=["fix", ".", "-p", str(sc["processes"])], plan=rplan or None)
            pool = dict(n.pool)
            for k_, v_ in dict(n.fired).items():
                if k_ in ("err", "short_read"):
                    faults["read_" + k_] += v_
        finally:
            tape = n.close()
        after = seams.snapshot_tree(root)
        meta1 = seams.snapshot_meta(root)
        muts = [e for e in events if e and e[0] == "disk" and e[3] in MUTATING]
        persist = {os.path.normpath(os.path.join(world["cwd"], p["path"])): p for p in out.get("mon", {}).get("persist", [])}
        perfile = {os.path.normpath(os.path.join(world["cwd"], f["path"])): f for f in out.get("mon", {}).get("files", [])}
        sdig = sha(json.dumps({k: v for k, v in sc.items() if k != "tape"}, sort_keys=True))[:10]
        n_corrupt = sum(len(m["corrupt"]) for m in world["meta"].values())
        faults["stored_byte_corruption"] += n_corrupt
        if "exception" in out:
            probes["run_raised_%s" % out["exception"][0]] += 1
        for rel in sorted(world["meta"]):
            pf = perfile.get(rel)
            if pf is None:
                probes["file_not_in_results"] += 1
                continue
            evaluations += 1
            before = initial[rel][0]
            now = after.get(rel, (None, None))[0]
            fdig = sha(before)[:10]
            enc = pf.get("encoding") or "utf-8"
            if pf.get("fixable", 0) == 0 or pf.get("tmp_prs_unfiltered", 0) > 0:
                # not-rewritten half
                stem = rel
                hits = [e for e in muts if e[4] == rel or e[4].startswith(rel)]
                if hits or meta0.get(rel) != meta1.get(rel) or now != before:
                    violations.append({
                        "oracle": "not-rewritten",
                        "signature": "C11:file-without-applicable-fixes-rewritten",
                        "message": "%s has no applicable fixes but was touched: ops=%s meta %s -> %s" % (rel, [[h[3], h[4]] for h in hits[:3]], meta0.get(rel), meta1.get(rel)),
                    })
                probes["judged_not_rewritten"] += 1
                nontrivial.append("nr|%s|%s|%s" % (fdig, enc, sdig))
                continue
            rec = persist.get(rel)
            if rec is None or now is None:
                probes["fixable_but_not_persisted"] += 1
                continue
            v, nt, info = judge_file(rel, before, now, world["meta"][rel], enc, world["meta"][rel]["file_enc"])
            probes["judge_" + info] += 1
            if nt:
                nontrivial.append("p|%s|%s|%s" % (fdig, enc, sdig))
                probes["corrupt_run_outside_patches"] += 1
            if v:
                violations.append({"oracle": "outside-patches", "signature": v[0], "message": v[1]})
        log.append([sdig, sorted((k, sha(repr(v))[:8]) for k, v in after.items()), sorted(probes.items()), [v["signature"] for v in violations]])
        samples.append({
            "enc_cfg": world["enc_cfg"],
            "files": world["meta"],
            "scenario": {k: v for k, v in sc.items() if k != "tape"},
            "detected": {k: v.get("encoding") for k, v in perfile.items()},
        })
        sc2 = dict(sc)
        sc2["tape"] = tape
        for v in violations:
            v["replay"] = {"world": world, "scenario": sc2, "hashseed": hs, "tier": tier}
    finally:
        cl.drop_root(root)
    uniq: dict = {}
    for v in violations:
        uniq.setdefault((v["oracle"], v["signature"]), v)
    return {
        "digest": digest(log, root),
        "evaluations": evaluations,
        "nontrivial": nontrivial,
        "violations": list(uniq.values()),
        "faults": dict(faults),
        "probes": dict(probes),
        "states": [],
        "schedules": [sha(repr(tape))[:10]],
        "sim_time": 0,
        "samples": samples,
    }


def shrink_candidates(rp: dict):
    import copy

    from vsim.shrink import drop_world_files, tape_candidates

    def fix(r: dict, removed: set) -> bool:
        sc = r["scenario"]
        if sc.get("file") in removed:
            return False
        return len(r["world"]["meta"]) >= 1

    yield from drop_world_files(rp, fixups=fix)
    sc = rp["scenario"]
    for t in tape_candidates(sc.get("tape") or []):
        r = copy.deepcopy(rp)
        r["scenario"]["tape"] = t
        yield "tape", r
    if sc.get("plan"):
        r = copy.deepcopy(rp)
        r["scenario"]["plan"] = []
        yield "no fault plan", r
    if sc.get("processes", 1) > 2:
        r = copy.deepcopy(rp)
        r["scenario"]["processes"] = 2
        yield "processes=2", r
