"""C25 File discovery honours ignore files regardless of path spelling."""

from __future__ import annotations

import json
import os
from collections import Counter
from typing import Any, Optional

import pathspec

from vsim import seams
from vsim.cluster import digest
from vsim.rng import Rng, sha
from vsim.world import b64, unb64

ID = "C25"
LEVEL = "exploration"
RULE = (
    "one run = a random directory tree (depth <= 3, <= 3 entries per directory; *.sql, *.SQL, *.txt, *.sql.j2) with "
    ".sqlfluffignore / .sqlfluff ignore_paths / pyproject.toml ignore_paths at random levels (patterns from a closed "
    "gitignore grammar without negation), queried 6-10 times inside ONE long-lived node (shared config-file cache) per working directory, or - when the project root carries no ignore file - ONE node that "
    "chdir()s between sibling working directories and once more per query in a fresh node: target x spelling (relative, ./rel, rel/, a/../a, absolute, "
    "'.') x cwd (root or a sub-directory) x ignore_files on/off x extension list x directory-listing order (seeded "
    "permutation of every scandir/listdir). Oracle: a reference ignore model written from the statement (pathspec "
    "trusted for pattern matching) + metamorphic equality across spellings, listing orders and history. evaluations "
    "= discovery calls compared. non-trivial iff an ignore file strictly inside the walked tree applied to a file "
    ">= 1 directory below it, or >= 2 spellings of the same target were compared; distinct = distinct (tree digest, "
    "query digest)."
)
TIERS = {
    "quick": {"runs": 200, "budget_s": 60, "min_runs": 4, "run_timeout_s": 240},
    "thorough": {"runs": 20000, "budget_s": 780, "min_runs": 40, "run_timeout_s": 600},
}
COMPONENTS_REAL = [
    "sqlfluff discovery.paths_from_path/_iter_files_in_path/_process_exact_path/_check_ignore_specs, ignore loaders, load_config_file_as_dict cache, Linter.lint_paths file selection",
    "os.walk / pathlib / pathspec on a real tmpfs tree",
]
COMPONENTS_STUBBED = ["os.scandir/os.listdir order (seeded permutation)", "process start cwd (bound into paths_from_path defaults)"]
ASSUMPTIONS = [
    "pathspec's gitignore matching is trusted; patterns are limited to a closed grammar without negation/re-inclusion",
    "ignore files live at or below the working directory (where statement and code agree on 'ancestor')",
]
WARM = "rules,ansi"

FILE_NAMES = ["x.sql", "y.sql", "z.SQL", "n.txt", "t.sql.j2", "anchored.sql", "name.sql", "w.sql"]
DIR_NAMES = ["a", "a1", "b", "d1", "sub", "sub2", "dd", "models", "models_v2"]


def gen_tree(rng: Rng) -> dict:
    files: dict[str, dict] = {}
    dirs = ["proj"]
    # chdir mode: ONE long-lived process moves between sibling working
    # directories; the project root then carries no ignore file, so the start
    # cwd that paths_from_path bound at import cannot matter
    chdir_mode = rng.chance(0.4)

    def fill(d: str, depth: int) -> None:
        # a quarter of the inner directories are "pure containers": no file of their own (or only
        # non-SQL ones), just sub-directories - where an ignore/config file still has to apply
        container = depth in (1, 2) and rng.chance(0.25)
        for fn in rng.sample(FILE_NAMES, rng.randint(0, 3)):
            if container and not fn.endswith((".txt", ".j2")):
                continue
            files[d + "/" + fn] = {"b64": b64(b"SELECT 1\n"), "mode": 0o644}
        if depth < 3:
            names = rng.sample(DIR_NAMES, rng.randint(1 if container else 0, 2 if depth else 3))
            # sibling directories where one name is a string prefix of the other
            for a_, b_ in (("a", "a1"), ("sub", "sub2"), ("models", "models_v2")):
                if a_ in names and b_ not in names and rng.chance(0.7):
                    names.append(b_)
            for dn in names:
                sub = d + "/" + dn
                dirs.append(sub)
                fill(sub, depth + 1)

    fill("proj", 0)
    # ignore files
    ign: dict[str, dict] = {}
    for d in dirs:
        if chdir_mode and d == "proj":
            continue
        if rng.chance((0.8 if chdir_mode and d.count("/") == 1 else 0.4) if d != "proj" else 0.5):
            below_dirs = [x[len(d) + 1 :] for x in dirs if x.startswith(d + "/")]
            below_files = [x[len(d) + 1 :] for x in files if x.startswith(d + "/")]
            pats = []
            for _ in range(rng.randint(1, 2)):
                kind = rng.choice(["name", "dir", "glob", "anchored", "subglob", "starstar", "dstar", "relfile"])
                if kind == "name":
                    pats.append(rng.choice(["name.sql", "x.sql", "y.sql", "w.sql"]))
                elif kind == "dir" and below_dirs:
                    pats.append(rng.choice(below_dirs).split("/")[-1] + "/")
                elif kind == "glob":
                    pats.append(rng.choice(["*.SQL", "x*.sql", "*.j2"]))
                elif kind == "anchored":
                    pats.append("/" + rng.choice(["anchored.sql", "x.sql", "y.sql"]))
                elif kind == "subglob" and below_dirs:
                    pats.append(rng.choice(below_dirs) + "/*.sql")
                elif kind == "starstar":
                    pats.append("**/" + rng.choice(["x.sql", "w.sql", "z.SQL"]))
                elif kind == "dstar":
                    pats.append("d*/")
                elif kind == "relfile" and below_files:
                    pats.append(rng.choice(below_files))
            if not pats:
                continue
            how = rng.choice([".sqlfluffignore", ".sqlfluffignore", ".sqlfluff", "pyproject.toml"])
            if chdir_mode and d.count("/") == 1 and rng.chance(0.6):
                how = ".sqlfluffignore"
            if d == "proj" and how == ".sqlfluff":
                how = ".sqlfluffignore"
            ign[d] = {"how": how, "patterns": pats}
            if how == ".sqlfluffignore":
                body = "\n".join(pats) + "\n"
            elif how == ".sqlfluff":
                body = "[sqlfluff]\nignore_paths = %s\n" % ",".join(pats)
            else:
                body = "[tool.sqlfluff.core]\nignore_paths = [%s]\n" % ", ".join('"%s"' % p for p in pats)
            files[d + "/" + how] = {"b64": b64(body.encode()), "mode": 0o644}
    files.setdefault("proj/.sqlfluff", {"b64": b64(b"[sqlfluff]\ndialect = ansi\n"), "mode": 0o644})
    return {"files": files, "dirs": ["home/u"] + dirs, "ignore": ign, "chdir_mode": chdir_mode}


def tree_of(world: dict) -> dict:
    t: dict[str, Any] = {}
    for d in world["dirs"]:
        t[d + "/"] = (None, 0o755)
    for rel, f in world["files"].items():
        t[rel] = (unb64(f["b64"]), f["mode"])
    return t


def gen_queries(rng: Rng, world: dict) -> list[dict]:
    dirs = [d for d in world["dirs"] if d.startswith("proj")]
    files = sorted(f for f in world["files"] if not os.path.basename(f).startswith(".") and not f.endswith("pyproject.toml"))
    qs = []
    nq = rng.randint(4, 7)
    for _ in range(nq):
        def clean_above(d: str) -> bool:
            a = os.path.dirname(d)
            while a:
                if a in world["ignore"]:
                    return False
                a = os.path.dirname(a)
            return True

        if world.get("chdir_mode"):
            cwd = rng.choice([d for d in dirs if d.count("/") == 1] or ["proj"])
        else:
            cwd = rng.choice([d for d in dirs if d.count("/") <= 1 and clean_above(d)] or ["proj"])
        under = [d for d in dirs if d == cwd or d.startswith(cwd + "/")]
        sibs = [d for d in dirs if d.count("/") == 1 and d != cwd] if cwd.count("/") == 1 else []
        if sibs and rng.chance(0.35):
            # a target OUTSIDE the working directory: a sibling directory (by preference one whose name
            # merely extends the cwd's name: a / a1), or something below it, spelled absolutely or ../rel.
            # Applicable ignore files are then those from the common ancestor down to the file.
            pref = [d for d in sibs if d.startswith(cwd) or cwd.startswith(d)]
            sib = rng.choice(pref) if pref and rng.chance(0.6) else rng.choice(sibs)
            below = [d for d in dirs if d == sib or d.startswith(sib + "/")] + [f for f in files if f.startswith(sib + "/")]
            deep = [x for x in below if x != sib]
            target = rng.choice(deep) if deep and rng.chance(0.6) else rng.choice(below)
            chosen = ["$ABS", os.path.relpath(target, cwd)]
            if target in dirs:
                chosen.append("$ABS/")
            exts = rng.choice([None, None, [".sql"], [".sql", ".sql.j2"]])
            flag = rng.chance(0.9)
            for sp in chosen:
                qs.append({"cwd": cwd, "target": target, "spelling": sp, "ignore_files": flag, "exts": exts,
                           "via": "lint" if rng.chance(0.15) else "func", "listing": rng.choice(["sorted", "shuffle", "reverse"])})
            continue
        if world.get("chdir_mode") and rng.chance(0.45):
            target = cwd
        elif rng.chance(0.75) or not files:
            target = rng.choice(under)
        else:
            fu = [f for f in files if f.startswith(cwd + "/")]
            target = rng.choice(fu) if fu else rng.choice(under)
        rel = os.path.relpath(target, cwd)
        spellings = []
        if rel == ".":
            spellings = [".", "./", "$ABS"]
        else:
            first = rel.split("/")[0]
            spellings = [rel, "./" + rel, "$ABS"]
            if target in dirs:
                spellings.append(rel + "/")
                spellings.append(first + "/../" + rel)
        k = rng.randint(2, len(spellings))
        chosen = rng.sample(spellings, k)
        exts = rng.choice([None, None, [".sql"], [".sql", ".sql.j2"], [".SQL"], [".sql", ".txt"]])
        for sp in chosen:
            qs.append({
                "cwd": cwd,
                "target": target,
                "spelling": sp,
                "ignore_files": rng.chance(0.85),
                "exts": exts,
                "via": "lint" if rng.chance(0.15) else "func",
                "listing": rng.choice(["sorted", "shuffle", "reverse"]),
            })
        # same ignore flag for all spellings of one target so they are comparable
        flag = qs[-1]["ignore_files"]
        for q in qs[-len(chosen):]:
            q["ignore_files"] = flag
        # read fault: ONE ignore file that applies to this query cannot be read (EACCES / EIO) in one of
        # the executions. The error may surface; the file's patterns must not be silently dropped.
        appl = [d for d in world["ignore"] if flag and (d == target or d.startswith(target + "/") or target.startswith(d + "/") or d == cwd)]
        if appl and rng.chance(0.15):
            d = rng.choice(sorted(appl))
            qs[-1]["unreadable"] = [d + "/" + world["ignore"][d]["how"], rng.choice(["EACCES", "EIO"])]
    return qs


def model(world: dict, q: dict) -> list[str]:
    """Absolute-in-world (root relative) paths the statement selects."""
    cwd, target = q["cwd"], q["target"]
    default_exts = [".sql", ".sql.j2", ".dml", ".ddl"] if q["via"] == "lint" else [".sql"]
    exts = [e.lower() for e in (q["exts"] or default_exts)]
    files = world["files"]
    is_file = target in files
    cands = [target] if is_file else sorted(f for f in files if f.startswith(target + "/"))
    specs = {d: pathspec.PathSpec.from_lines("gitignore", v["patterns"]) for d, v in world["ignore"].items()}
    out = []
    for f in cands:
        if not any(f.lower().endswith(e) for e in exts):
            continue
        ignored = False
        if q["ignore_files"]:
            fdir = os.path.dirname(f)
            # applicable: ignore files from the common ancestor of (cwd, target) - the cwd itself for
            # targets inside it - down to the file's directory
            base = os.path.commonpath([cwd, target if not is_file else os.path.dirname(target)])
            chain = []
            d = fdir
            while True:
                chain.append(d)
                if d == base or "/" not in d:
                    break
                d = os.path.dirname(d)
            for D in chain:
                if not (D == base or D.startswith(base + "/")):
                    continue
                S = specs.get(D)
                if S is None:
                    continue
                if S.match_file(os.path.relpath(f, D)):
                    ignored = True
                    break
                # directory pruning below the walked target
                if not is_file:
                    A = fdir
                    while A != target and A.startswith(target + "/"):
                        if A != D and A.startswith(D + "/") and S.match_file(os.path.relpath(A, D) + "/*"):
                            ignored = True
                            break
                        A = os.path.dirname(A)
                if ignored:
                    break
        if not ignored:
            out.append(f)
    return sorted(out)


def applies_below(world: dict, q: dict, selected_model: list[str]) -> bool:
    """Did an ignore file strictly inside the walked tree decide about a file >= 1 dir below it?"""
    target = q["target"]
    if not q["ignore_files"] or target in world["files"]:
        return False
    for D, v in world["ignore"].items():
        if D == target or D.startswith(target + "/"):
            S = pathspec.PathSpec.from_lines("gitignore", v["patterns"])
            for f in world["files"]:
                if f.startswith(D + "/") and os.path.dirname(f) != D and S.match_file(os.path.relpath(f, D)):
                    return True
    return False


def run_one(ctx: Any, seed: int, tier: str, replay: Optional[dict] = None) -> dict:
    rng = Rng(seed)
    if replay:
        world = replay["world"]
        queries = replay["queries"]
        hs = replay["hashseed"]
    else:
        world = gen_tree(rng.fork("world"))
        queries = gen_queries(rng.fork("queries"), world)
        hs = rng.fork("hashseed").choice(ctx.hashseeds(2))
    cl = ctx.cluster
    z = cl.zygote(hs, WARM)
    root = cl.new_root("C25-%d" % seed)
    initial = tree_of(world)
    wdig = sha(json.dumps(world["files"], sort_keys=True))[:10]
    log: list = []
    violations: list[dict] = []
    probes: Counter = Counter()
    faults: Counter = Counter()
    nontrivial: list = []
    samples: list = []
    evaluations = 0
    try:
        seams.restore_tree(root, initial)
        hists: dict = {}
        by_target: dict = {}
        try:
            for qi, q in enumerate(queries):
                # one long-lived node per working directory (a real process binds
                # its start cwd into paths_from_path at import time)
                hkey = "*" if world.get("chdir_mode") else q["cwd"]
                if hkey not in hists:
                    hists[hkey] = z.node({"name": "hist%d" % len(hists), "root": root, "cwd": q["cwd"], "seed": seed,
                                          "knobs": {"listing": "shuffle", "journal_reads": False}})
                hist = hists[hkey]
                if world.get("chdir_mode"):
                    hist.call("env", kind="chdir", cwd=q["cwd"])
                    faults["chdir"] += 1
                path = q["spelling"]
                if path == "$ABS":
                    path = os.path.join(root, q["target"])
                elif path == "$ABS/":
                    path = os.path.join(root, q["target"]) + "/"
                want = model(world, q)
                results = {}
                # (1) inside the history node: chdir + listing mode are events
                hist.call("env", kind="listing", mode=q["listing"])
                r1 = hist.call("discover", path=path, ignore_files=q["ignore_files"], exts=q["exts"], via=q["via"])
                results["history"] = r1
                # (2) alone in a fresh node started in that cwd
                fresh = z.node({"name": "f%d" % qi, "root": root, "cwd": q["cwd"], "seed": seed + qi, "knobs": {"listing": "sorted", "journal_reads": False}})
                try:
                    r2 = fresh.call("discover", path=path, ignore_files=q["ignore_files"], exts=q["exts"], via=q["via"])
                finally:
                    fresh.close()
                results["fresh"] = r2
                # (3) read fault: one applicable ignore file is unreadable, in another fresh node
                if q.get("unreadable"):
                    fpath, errno_ = q["unreadable"]
                    fplan = [{"cls": "open_r", "path": fpath, "nth": 0, "kind": "err", "errno": errno_}]
                    fn3 = z.node({"name": "u%d" % qi, "root": root, "cwd": q["cwd"], "seed": seed + 500 + qi, "knobs": {"listing": "sorted", "journal_reads": False}})
                    try:
                        r3 = fn3.call("discover", path=path, ignore_files=q["ignore_files"], exts=q["exts"], via=q["via"], plan=fplan)
                        fired3 = dict(fn3.fired)
                    finally:
                        fn3.close()
                    evaluations += 1
                    if fired3.get("err"):
                        faults["ignore_file_unreadable"] += 1
                        if "exception" in r3:
                            probes["unreadable_ignore_file_error_surfaced"] += 1
                        else:
                            got3 = sorted(os.path.relpath(os.path.normpath(os.path.join(root, q["cwd"], p_)), root) for p_ in r3["paths"])
                            extra3 = sorted(set(got3) - set(want))
                            if extra3:
                                violations.append({
                                    "oracle": "unreadable-ignore-file",
                                    "signature": "C25:unreadable-ignore-file-silently-dropped",
                                    "message": "ignore file %s could not be read (%s) and discovery went on without it: %s selected although its patterns exclude them (query %s)" % (
                                        fpath, errno_, extra3, {k: q[k] for k in ("cwd", "target", "spelling", "via")}),
                                    "_q": qi, "_who": "unreadable", "_extra": extra3,
                                })
                    log.append([qi, "unreadable", fpath, sorted(r3.get("paths", [])) if "exception" not in r3 else "EXC"])
                for who, r in results.items():
                    evaluations += 1
                    if "exception" in r:
                        got = ["EXC:" + r["exception"][0]]
                    else:
                        got = sorted(os.path.relpath(os.path.normpath(os.path.join(root, q["cwd"], p)), root) for p in r["paths"])
                    qd = {k: q[k] for k in ("cwd", "target", "spelling", "ignore_files", "exts", "via")}
                    qdig = sha(json.dumps(qd, sort_keys=True))[:10]
                    log.append([qi, who, qdig, got])
                    if got != want:
                        extra = sorted(set(got) - set(want))
                        missing = sorted(set(want) - set(got))
                        sig = "C25:model-mismatch"
                        rel_spelling = not q["spelling"].startswith("$ABS")
                        if extra and not missing and rel_spelling and q["target"] not in world["files"]:
                            # F2 shape: relative path, a file >= 2 levels below an inner ignore file is not ignored
                            abs_q = dict(q, spelling="$ABS")
                            sig = "F2:inner-ignore-spec-dropped-for-relative-path"
                        violations.append({
                            "oracle": "ignore-model",
                            "signature": sig,
                            "message": "query %s in %s node: selected-but-should-be-ignored=%s missing=%s (ignore files: %s)" % (
                                qd, who, extra, missing, world["ignore"]),
                            "_q": qi, "_who": who, "_extra": extra,
                        })
                    key = (q["cwd"], q["target"], q["ignore_files"], json.dumps(q["exts"]), q["via"])
                    by_target.setdefault(key, {})[(q["spelling"], who, q["listing"] if who == "history" else "sorted")] = got
                    nt = applies_below(world, q, want)
                    if nt:
                        probes["inner_ignore_applied_below"] += 1
                        nontrivial.append("%s|%s" % (wdig, qdig))
                    if q["listing"] != "sorted" and who == "history":
                        faults["listing"] += 1
                if not samples and world["ignore"]:
                    samples.append({"tree": sorted(world["files"]), "ignore": world["ignore"], "query": {k: q[k] for k in q}, "model": want, "got": got})
        finally:
            for h in hists.values():
                h.close()
        # metamorphic: every spelling / listing order / history position of one target agrees
        for key, res in by_target.items():
            vals = {json.dumps(v) for v in res.values()}
            spellings = {k[0] for k in res}
            if len(spellings) >= 2:
                probes["spelling_groups_compared"] += 1
                nontrivial.append("%s|sp|%s" % (wdig, sha(repr(key))[:10]))
            if len(vals) > 1:
                rel_only_bad = True
                sig = "C25:spellings-disagree"
                absr = [v for k, v in res.items() if k[0] == "$ABS"]
                if absr and all(set(json.loads(x)) >= set(absr[0]) for x in vals):
                    sig = "F2:inner-ignore-spec-dropped-for-relative-path"
                violations.append({
                    "oracle": "spelling-metamorphic",
                    "signature": sig,
                    "message": "same target %s selected differently depending on spelling/listing/history: %s" % (key, {str(k): v for k, v in res.items()}),
                })
        for v in violations:
            for k in ("_q", "_who", "_extra"):
                v.pop(k, None)
            v["replay"] = {"world": world, "queries": queries, "hashseed": hs, "tier": tier}
    finally:
        cl.drop_root(root)
    uniq: dict = {}
    for v in violations:
        uniq.setdefault((v["oracle"], v["signature"]), v)
    return {
        "digest": digest(log, root),
        "evaluations": evaluations,
        "nontrivial": nontrivial,
        "violations": list(uniq.values()),
        "faults": dict(faults),
        "probes": dict(probes),
        "states": [],
        "schedules": [],
        "sim_time": 0,
        "samples": samples,
    }


def shrink_candidates(rp: dict):
    import copy

    from vsim.shrink import list_candidates

    for qs in list_candidates(rp["queries"]):
        if qs:
            r = copy.deepcopy(rp)
            r["queries"] = qs
            yield "drop queries", r
    ign = sorted(rp["world"]["ignore"])
    for keep in list_candidates(ign):
        r = copy.deepcopy(rp)
        for d in set(ign) - set(keep):
            how = r["world"]["ignore"].pop(d)["how"]
            r["world"]["files"].pop(d + "/" + how, None)
        yield "drop ignore files", r
    plain = sorted(f for f in rp["world"]["files"] if not os.path.basename(f).startswith(".") and not f.endswith(".toml"))
    for keep in list_candidates(plain):
        r = copy.deepcopy(rp)
        for f in set(plain) - set(keep):
            r["world"]["files"].pop(f, None)
        if all(q["target"] in r["world"]["files"] or q["target"] in r["world"]["dirs"] for q in r["queries"]):
            yield "drop files", r
