"""C27 Configuration precedence and isolation — histories over shared config state vs a reference merge."""

from __future__ import annotations

import json
import os
from collections import Counter
from typing import Any, Optional

from vsim import seams
from vsim.cluster import digest
from vsim.rng import Rng, sha
from vsim.world import b64, unb64

ID = "C27"
LEVEL = "exploration"
RULE = (
    "one run = a generated config hierarchy (user appdir + home config, and in the working directory and nested "
    "directories any of setup.cfg/tox.ini/pep8.ini/.sqlfluff/pyproject.toml, optional --config extra file, CLI "
    "overrides, per-file inline '-- sqlfluff:' directives) described structurally, rendered to ini/toml, and a "
    "history of 6-14 operations in long-lived nodes: effective_config(file) through a shared root FluffConfig, "
    "lint_paths over subsets with a shared Linter (serial and SimPool, inproc and forked workers), lint_string with "
    "inline directives on the same Linter, CLI lint in a fresh node, cache eviction, restart. Every observation "
    "(the config object actually handed to lint_rendered, or returned by load_raw_file_and_config) is compared on 10 "
    "typed probe keys with a reference merge written from the statement for that file ALONE; in addition the violations "
    "one file got inside the history must equal those of the same file linted in a fresh process against ONE flat "
    ".sqlfluff holding the model's values (every file body reacts to every probed key). evaluations = "
    "per-file observations. non-trivial iff >= 2 sources set the probed key to different values, or the "
    "observation was preceded in the same node by a file from a different directory or inline set; distinct = "
    "distinct (hierarchy digest, file, history-prefix digest)."
)
TIERS = {
    "quick": {"runs": 150, "budget_s": 60, "min_runs": 4, "run_timeout_s": 240},
    "thorough": {"runs": 10000, "budget_s": 780, "min_runs": 40, "run_timeout_s": 600},
}
COMPONENTS_REAL = [
    "sqlfluff config loader (load_config_up_to_path/at_path, functools.cache'd file loaders), FluffConfig (from_root, make_child_from_path, copy, process_raw_file_for_config, __getstate__/__setstate__), nested_combine",
    "Linter.load_raw_file_and_config, lint_paths (serial/parallel), lint_string, cli lint",
]
COMPONENTS_STUBBED = ["multiprocessing.Pool -> SimPool", "HOME/XDG_CONFIG_HOME point into the simulated world", "virtual clock etc."]
ASSUMPTIONS = [
    "no config file above the working directory (statement and code agree there)",
    "probe keys avoid specially-treated settings (templater, sql_file_exts, ...)",
]
WARM = "rules,ansi,postgres,bigquery,tsql"

VALUES = {
    "core:max_line_length": [60, 80, 100, 120],
    "core:dialect": ["ansi", "postgres", "bigquery", "tsql"],
    "core:rules": ["LT01", "LT01,LT02", "core", "LT01,CP01,LT12"],
    "core:exclude_rules": ["LT05", "CP01", "LT05,LT09"],
    "indentation:tab_space_size": [2, 4, 8],
    "indentation:indent_unit": ["space", "tab"],
    "layout:type:comma:line_position": ["trailing", "leading"],
    "rules:capitalisation.keywords:capitalisation_policy": ["upper", "lower", "consistent"],
    "templater:jinja:context:k1": ["v1", "v2", "v3"],
    "templater:jinja:context:k2": ["w1", "w2"],
    # a path-valued setting: resolved relative to the directory of the config FILE that sets it
    "templater:jinja:load_macros_from_path": ["macros", "macros", "sql_macros"],
}
PATH_KEY = "templater:jinja:load_macros_from_path"
KEYS = sorted(VALUES)
DEFAULTS = {
    "core:max_line_length": "80",
    "core:dialect": None,
    "core:rules": "all",
    "core:exclude_rules": None,
    "indentation:tab_space_size": "4",
    "indentation:indent_unit": "space",
    "layout:type:comma:line_position": "trailing",
    "rules:capitalisation.keywords:capitalisation_policy": "consistent",
    "templater:jinja:context:k1": None,
    "templater:jinja:context:k2": None,
    "templater:jinja:load_macros_from_path": None,
}
# one body for every file / string: its violations react to every probed key (line length 60/80 vs
# 100/120, keyword capitalisation policy, indent size/unit, comma position, rule selection, jinja
# context k1), so a wrong effective config shows in behaviour, not only in the config object
BODY = [
    "SELECT",
    "    a,",
    "    b, '{{ k1 }}' AS c from tbl",
    "WHERE a  = 1",
    "    AND bbbbbbbbbbbbbbbbbbbbbbbbbbbbbbbbbbbbbbbbbbbbbbbbbbbbbbbbbbbbbbbbbbbbbbbbbbbbbbbbbbbb = 2",
    "",
]
FILE_ORDER = ["setup.cfg", "tox.ini", "pep8.ini", ".sqlfluff", "pyproject.toml"]
OVERRIDE_KEYS = ["core:dialect", "core:rules", "core:exclude_rules"]
INLINE_KEYS = [
    "core:max_line_length",
    "indentation:tab_space_size",
    "indentation:indent_unit",
    "layout:type:comma:line_position",
    "rules:capitalisation.keywords:capitalisation_policy",
    "templater:jinja:context:k1",
]


def render_ini(kv: dict) -> bytes:
    secs: dict[str, dict] = {}
    for k, v in kv.items():
        parts = k.split(":")
        if parts[0] == "core":
            sec = "sqlfluff"
        else:
            sec = "sqlfluff:" + ":".join(parts[:-1])
        secs.setdefault(sec, {})[parts[-1]] = v
    out = []
    for sec in sorted(secs):
        out.append("[%s]" % sec)
        for k, v in secs[sec].items():
            out.append("%s = %s" % (k, v))
        out.append("")
    return "\n".join(out).encode()


def render_toml(kv: dict) -> bytes:
    secs: dict[str, dict] = {}
    for k, v in kv.items():
        parts = k.split(":")
        sec = "tool.sqlfluff." + ".".join('"%s"' % p if "." in p else p for p in parts[:-1])
        secs.setdefault(sec, {})[parts[-1]] = v
    out = []
    for sec in sorted(secs):
        out.append("[%s]" % sec)
        for k, v in secs[sec].items():
            out.append("%s = %s" % (k, v if isinstance(v, int) else '"%s"' % v))
        out.append("")
    return "\n".join(out).encode()


def rand_kv(rng: Rng, n_lo: int = 1, n_hi: int = 4, keys: Optional[list] = None) -> dict:
    ks = rng.sample(keys or KEYS, rng.randint(n_lo, min(n_hi, len(keys or KEYS))))
    return {k: rng.choice(VALUES[k]) for k in sorted(ks)}


def gen_world(rng: Rng) -> dict:
    files: dict[str, dict] = {}
    sources: dict[str, dict] = {}  # path -> structured kv
    dirs = ["proj"]
    for d in rng.sample(["a", "a/b", "c", "a/b2"], rng.randint(1, 3)):
        parts = d.split("/")
        for i in range(1, len(parts) + 1):
            p = "proj/" + "/".join(parts[:i])
            if p not in dirs:
                dirs.append(p)
    # user level; sometimes HOME lives INSIDE the working directory (CI jobs with
    # HOME in the workspace): precedence must not change
    home = "proj/.home" if rng.chance(0.2) else "home/u"
    if rng.chance(0.4):
        sources[home + "/.config/sqlfluff/.sqlfluff"] = rand_kv(rng)
    if rng.chance(0.4):
        sources[home + "/" + rng.choice([".sqlfluff", "setup.cfg"])] = rand_kv(rng)
    # project: root always sets a dialect
    root_kv = rand_kv(rng, 1, 3)
    root_kv["core:dialect"] = rng.choice(VALUES["core:dialect"])
    sources["proj/.sqlfluff"] = root_kv
    for d in dirs:
        for fn in FILE_ORDER:
            p = d + "/" + fn
            if p in sources:
                continue
            if rng.chance(0.22):
                sources[p] = rand_kv(rng)
    extra = None
    if rng.chance(0.35):
        extra = "proj/extra_cfg/custom.cfg"
        sources[extra] = rand_kv(rng)
    if rng.chance(0.3) and len(dirs) >= 2:
        # two config files with byte-identical text in different directories, holding a relative path:
        # each must resolve it against its OWN directory
        fn = rng.choice(["pyproject.toml", "pyproject.toml", "tox.ini", "setup.cfg"])
        d1, d2 = rng.sample(dirs, 2)
        kv = rand_kv(rng, 1, 2, [k for k in KEYS if k not in ("core:dialect", PATH_KEY)])
        kv[PATH_KEY] = "macros"
        sources[d1 + "/" + fn] = dict(kv)
        sources[d2 + "/" + fn] = dict(kv)
    sole = None
    if rng.chance(0.35):
        # a nested section that exists in exactly ONE source (the Jinja context; not in the defaults either):
        # a merge that layers that source without copying hands its very dict to every per-file config, and
        # an inline directive of one file then writes into it. The explicit --config file is the sole source
        # more often than not (it is merged last, by a call of its own).
        if extra is None and rng.chance(0.5):
            extra = "proj/extra_cfg/custom.cfg"
            sources[extra] = rand_kv(rng, 1, 2, [k for k in KEYS if k not in ("core:dialect", PATH_KEY)])
        sole = extra if extra and rng.chance(0.7) else rng.choice(sorted(sources))
        for p, kv in sources.items():
            for k in [k for k in kv if k.startswith("templater:jinja:context:")]:
                if p != sole or k.endswith(":k1"):
                    del kv[k]
            if not kv:
                kv["core:max_line_length"] = rng.choice(VALUES["core:max_line_length"])
        sources[sole]["templater:jinja:context:k2"] = rng.choice(VALUES["templater:jinja:context:k2"])
    for p, kv in list(sources.items()):
        if PATH_KEY in kv:
            files[os.path.dirname(p) + "/" + kv[PATH_KEY] + "/vsim_macro.sql"] = {"b64": b64(b"{% macro vsim_noop() %}{% endmacro %}\n"), "mode": 0o644}
    for p, kv in sources.items():
        body = render_toml(kv) if p.endswith(".toml") else render_ini(kv)
        files[p] = {"b64": b64(body), "mode": 0o644}
    overrides = {}
    if rng.chance(0.4):
        for k in rng.sample(OVERRIDE_KEYS, rng.randint(1, 2)):
            overrides[k] = rng.choice(VALUES[k])
    # sql files
    sqls: dict[str, dict] = {}
    for d in dirs:
        for i in range(rng.randint(1, 2)):
            name = "%s/q%d.sql" % (d, i)
            inline = {}
            if rng.chance(0.35):
                inline = rand_kv(rng, 1, 2, INLINE_KEYS)
            if sole and not sqls and rng.chance(0.8):
                # (with a sole-source section: one file writes a key of that section inline, the others do not)
                inline = dict(inline)
                inline["templater:jinja:context:k1"] = rng.choice(VALUES["templater:jinja:context:k1"])
            elif sole:
                inline.pop("templater:jinja:context:k1", None)
            lines = []
            if inline and rng.chance(0.5):
                lines.append("-- a leading comment, the directives follow")
            for k, v in inline.items():
                parts = k.split(":")
                if parts[0] == "core":
                    parts = parts[1:]
                lines.append("-- sqlfluff:%s:%s" % (":".join(parts), v))
            body = "\n".join(lines + BODY)
            files[name] = {"b64": b64(body.encode()), "mode": 0o644}
            sqls[name] = {"inline": inline, "dir": d}
    all_dirs = set(["home/u", home, "proj"] + dirs)
    for p in files:
        all_dirs.add(os.path.dirname(p))
    return {
        "files": files,
        "dirs": sorted(all_dirs),
        "cwd": "proj",
        "home": home,
        "sources": sources,
        "extra": extra,
        "overrides": overrides,
        "sqls": sqls,
    }


def tree_of(world: dict) -> dict:
    t: dict[str, Any] = {}
    for d in world["dirs"]:
        t[d + "/"] = (None, 0o755)
    for rel, f in world["files"].items():
        t[rel] = (unb64(f["b64"]), f["mode"])
    return t


def model(world: dict, fdir: str, inline: dict) -> tuple[dict, dict]:
    """-> (values, nsources) for a file in directory fdir with the given inline set."""
    layers: list[dict] = []
    src = world["sources"]
    home = world.get("home", "home/u")
    for fn in FILE_ORDER:
        p = home + "/.config/sqlfluff/" + fn
        if p in src:
            layers.append(src[p])
    for fn in FILE_ORDER:
        p = home + "/" + fn
        if p in src:
            layers.append(src[p])
    chain = []
    d = fdir
    while True:
        chain.append(d)
        if d == world["cwd"]:
            break
        d = os.path.dirname(d)
    for d in reversed(chain):
        for fn in FILE_ORDER:
            p = d + "/" + fn
            if p in src:
                layers.append(src[p])
    if world["extra"]:
        layers.append(src[world["extra"]])
    layers.append(dict(world["overrides"]))
    layers.append(dict(inline))
    vals = dict(DEFAULTS)
    seen: dict[str, set] = {k: set() for k in KEYS}
    where = {id(kv): os.path.dirname(p_) for p_, kv in src.items()}
    for layer in layers:
        for k, v in layer.items():
            if k == PATH_KEY and id(layer) in where:
                v = "$ROOT/%s/%s" % (where[id(layer)], v)  # resolved against the setting file's directory
            vals[k] = str(v)
            seen[k].add(str(v))
    return vals, {k: len(v) for k, v in seen.items()}


def gen_history(rng: Rng, world: dict) -> list[dict]:
    sqls = sorted(world["sqls"])
    ops: list[dict] = []
    n = rng.randint(6, 12)
    for _ in range(n):
        kind = rng.weighted([("cfg", 5), ("lint", 3), ("lint_string", 2), ("evict", 1), ("restart", 1), ("cli", 1)])
        if kind == "cfg":
            op = {"op": "cfg", "file": rng.choice(sqls)}
            if rng.chance(0.12):
                # read fault: ONE config file on this file's chain cannot be read (EACCES / EIO). The error may
                # surface; the file's settings must not be silently left out of the merge.
                fdir = world["sqls"][op["file"]]["dir"]
                chain = [p_ for p_ in world["sources"] if p_.startswith("proj") and (fdir == os.path.dirname(p_) or fdir.startswith(os.path.dirname(p_) + "/"))]
                if chain:
                    op["unreadable"] = [rng.choice(sorted(chain)), rng.choice(["EACCES", "EIO"])]
            ops.append(op)
        elif kind == "lint":
            k = rng.randint(1, min(4, len(sqls)))
            files = rng.sample(sqls, k)
            ops.append({"op": "lint", "files": files, "processes": rng.choice([1, 1, 2, 3]),
                        "backend": "forked" if rng.chance(0.25) else "inproc"})
        elif kind == "lint_string":
            inline = rand_kv(rng, 1, 2, INLINE_KEYS) if rng.chance(0.7) else {}
            ops.append({"op": "lint_string", "inline": inline})
        elif kind == "cli":
            ops.append({"op": "cli", "files": rng.sample(sqls, rng.randint(1, min(3, len(sqls)))), "processes": rng.choice([1, 2])})
        else:
            ops.append({"op": kind})
    return ops


def run_one(ctx: Any, seed: int, tier: str, replay: Optional[dict] = None) -> dict:
    rng = Rng(seed)
    if replay:
        world = replay["world"]
        history = replay["history"]
        hs = replay["hashseed"]
        warm = replay.get("warm", WARM)
    else:
        world = gen_world(rng.fork("world"))
        history = gen_history(rng.fork("history"), world)
        hr = rng.fork("hashseed")
        hs = hr.choice(ctx.hashseeds(2))
        warm = WARM if hr.chance(0.85) else ""
    cl = ctx.cluster
    z = cl.zygote(hs, warm)
    root = cl.new_root("C27-%d" % seed)
    initial = tree_of(world)
    wdig = sha(json.dumps(world["files"], sort_keys=True))[:10]
    cwd = world["cwd"]
    ov = {k.split(":")[1]: v for k, v in world["overrides"].items()}
    extra_rel = os.path.relpath(world["extra"], cwd) if world["extra"] else None
    log: list = []
    violations: list[dict] = []
    probes: Counter = Counter()
    faults: Counter = Counter()
    nontrivial: list = []
    samples: list = []
    evaluations = 0
    sim_time = 0
    gen = 0
    events: list = []

    home_abs = os.path.join(root, world.get("home", "home/u"))
    node_env = {"HOME": home_abs, "XDG_CONFIG_HOME": os.path.join(home_abs, ".config")}

    def new_node(name: str):
        return z.node({"name": name, "root": root, "cwd": cwd, "seed": seed + gen, "env": node_env,
                       "knobs": {"cfg_probe": True, "journal_reads": False, "lookahead": 2, "worker_env": node_env}}, sink=events)

    node = None
    behaviour: dict[str, tuple] = {}  # file -> (op index, violations) as linted inside the history
    prefix: list = []
    last_ctx: Optional[tuple] = None  # (dir, inline digest) of the previous observation in this node

    def judge(where: str, fname_rel: Optional[str], fdir: str, inline: dict, got: dict, opi: int) -> None:
        nonlocal evaluations, last_ctx
        evaluations += 1
        want, nsrc = model(world, fdir, inline)
        ctxkey = (fdir, json.dumps(inline, sort_keys=True))
        after_other = last_ctx is not None and last_ctx != ctxkey
        last_ctx = ctxkey
        multi = any(n >= 2 for n in nsrc.values())
        if multi or after_other:
            nontrivial.append("%s|%s|%s" % (wdig, fname_rel or "<string>", sha(repr(prefix))[:10]))
        if multi:
            probes["obs_key_set_by_2plus_sources"] += 1
        if after_other:
            probes["obs_after_other_dir_or_inline"] += 1
        got = {k: (v.replace(root, "$ROOT") if isinstance(v, str) else v) for k, v in got.items()}
        bad = {k: (want[k], got.get(k)) for k in KEYS if got.get(k) != want[k]}
        if bad:
            k0 = sorted(bad)[0]
            violations.append({
                "oracle": "precedence-isolation",
                "signature": "C27:" + ("isolation" if after_other else "precedence"),
                "message": "op #%d (%s) file %s: %s expected (model) %r but sqlfluff used %r%s; all differing keys: %s" % (
                    opi, where, fname_rel or "<string>", k0, bad[k0][0], bad[k0][1],
                    " [history-dependent: preceded by another dir/inline set]" if after_other else "", bad),
            })

    try:
        seams.restore_tree(root, initial)
        node = new_node("h0")
        for opi, op in enumerate(history):
            del events[:]
            kind = op["op"]
            prefix.append(json.dumps(op, sort_keys=True))
            if kind == "restart":
                node.close()
                gen += 1
                node = new_node("h%d" % gen)
                last_ctx = None
                faults["restart"] += 1
                log.append([opi, "restart"])
                continue
            if kind == "evict":
                node.call("env", kind="evict")
                faults["evict"] += 1
                log.append([opi, "evict"])
                continue
            if kind == "cfg" and op.get("unreadable"):
                # in a fresh node (cold config caches, so the file really is opened), with the read fault armed
                f = op["file"]
                upath, uerr = op["unreadable"]
                un = new_node("unread%d" % opi)
                try:
                    r = un.call("effective_config", fname=os.path.relpath(f, cwd), handle="U", overrides=ov or None, extra_config=extra_rel,
                                plan=[{"cls": "open_r", "path": upath, "nth": 0, "kind": "err", "errno": uerr}])
                    ufired = dict(un.fired)
                finally:
                    un.close()
                evaluations += 1
                if ufired.get("err"):
                    faults["config_file_unreadable"] += 1
                    if "exception" in r:
                        probes["unreadable_config_error_surfaced"] += 1
                    else:
                        saved_ctx = last_ctx
                        last_ctx = None
                        nv = len(violations)
                        judge("effective_config with %s unreadable (%s)" % (upath, uerr), f, world["sqls"][f]["dir"], world["sqls"][f]["inline"], r["values"], opi)
                        last_ctx = saved_ctx
                        for v_ in violations[nv:]:
                            v_["oracle"] = "unreadable-config-file"
                            v_["signature"] = "C27:unreadable-config-silently-skipped"
                log.append([opi, "cfg-unreadable", f, upath, "EXC" if "exception" in r else sorted(r["values"].items())])
                continue
            if kind == "cfg":
                f = op["file"]
                r = node.call("effective_config", fname=os.path.relpath(f, cwd), handle="R", overrides=ov or None, extra_config=extra_rel)
                if "exception" in r:
                    violations.append({"oracle": "exception", "signature": "C27:exception", "message": "effective_config(%s) raised %s" % (f, r["exception"])})
                    log.append([opi, "cfg", f, "EXC"])
                    continue
                judge("effective_config", f, world["sqls"][f]["dir"], world["sqls"][f]["inline"], r["values"], opi)
                log.append([opi, "cfg", f, sorted(r["values"].items())])
            elif kind in ("lint", "cli"):
                files = op["files"]
                rels = [os.path.relpath(f, cwd) for f in files]
                if kind == "lint":
                    node.call("env", kind="pool", backend=op["backend"])
                    r = node.call("lint_paths", paths=rels, processes=op["processes"], overrides=ov or None, extra_config=extra_rel,
                                  linter_handle="linter:L")
                    sim_time += node.pool.get("clock", 0)
                    for rec in r.get("records", []):
                        frel_ = os.path.normpath(os.path.join(cwd, rec["filepath"]))
                        if frel_ in world["sqls"]:
                            behaviour.setdefault(frel_, (opi, rec["violations"]))
                    probes["lint_p%d_%s" % (min(op["processes"], 2), op["backend"] if op["processes"] > 1 else "serial")] += 1
                else:
                    argv = ["lint"] + rels + ["--format", "json", "-p", str(op["processes"])]
                    if extra_rel:
                        argv += ["--config", extra_rel]
                    for k, v in ov.items():
                        argv += ["--" + k.replace("_", "-"), str(v)]
                    cn = new_node("cli%d" % opi)
                    try:
                        r = cn.call("cli", argv=argv)
                    finally:
                        cn.close()
                    probes["cli_lint"] += 1
                obs = [e for e in events if e and e[0] == "cfgobs"]
                seen_files = set()
                for e in obs:
                    frel = os.path.normpath(os.path.join(cwd, e[2]))
                    if frel in world["sqls"] and isinstance(e[3], dict) and "error" not in e[3]:
                        seen_files.add(frel)
                        if kind == "cli":
                            saved = last_ctx
                            last_ctx = None
                        judge(kind, frel, world["sqls"][frel]["dir"], world["sqls"][frel]["inline"], e[3], opi)
                        if kind == "cli":
                            last_ctx = saved
                if "exception" in r:
                    violations.append({"oracle": "exception", "signature": "C27:exception", "message": "%s of %s raised %s" % (kind, files, r["exception"])})
                log.append([opi, kind, files, sorted(seen_files), sorted((e[2], sorted(e[3].items())) for e in obs if isinstance(e[3], dict))])
            elif kind == "lint_string":
                inline = op["inline"]
                lines = []
                for k, v in inline.items():
                    parts = k.split(":")
                    if parts[0] == "core":
                        parts = parts[1:]
                    lines.append("-- sqlfluff:%s:%s" % (":".join(parts), v))
                sql = "\n".join(lines + BODY)
                r = node.call("lint_string", sql=sql, handle="L", overrides=ov or None, extra_config=extra_rel)
                obs = [e for e in events if e and e[0] == "cfgobs"]
                if "exception" in r:
                    violations.append({"oracle": "exception", "signature": "C27:exception", "message": "lint_string raised %s" % (r["exception"],)})
                for e in obs:
                    if isinstance(e[3], dict) and "error" not in e[3]:
                        judge("lint_string", None, cwd, inline, e[3], opi)
                # the shared Linter's own root config must not have absorbed the inline values
                if "root_values" in r:
                    want_root, _ = model(world, cwd, {})
                    rv = {k: (v.replace(root, "$ROOT") if isinstance(v, str) else v) for k, v in r["root_values"].items()}
                    bad = {k: (want_root[k], rv.get(k)) for k in KEYS if rv.get(k) != want_root[k]}
                    evaluations += 1
                    if bad:
                        violations.append({"oracle": "root-config-mutated", "signature": "C27:isolation",
                                           "message": "after lint_string with inline %s the shared Linter's root config changed: %s" % (inline, bad)})
                log.append([opi, "lint_string", inline, sorted((e[2], sorted(e[3].items())) for e in obs if isinstance(e[3], dict))])
        # ---- behavioural cross-check: the violations a file got INSIDE the history (whole hierarchy,
        # shared caches, workers) must equal those of the same file linted in a fresh process against ONE
        # flat .sqlfluff holding the reference model's values (inline directives stay in the file)
        picks = sorted(behaviour)
        if picks:
            k0 = seed % len(picks)
            picks = [picks[k0]] + ([picks[(k0 + 1) % len(picks)]] if len(picks) > 1 and tier != "quick" else [])
        for frel in picks:
            opi_b, got_v = behaviour[frel]
            want, _ = model(world, world["sqls"][frel]["dir"], {})
            flat = {k: (v.replace("$ROOT", root) if isinstance(v, str) else v) for k, v in want.items() if v is not None}
            root2 = cl.new_root("C27b-%d-%s" % (seed, sha(frel)[:6]))
            try:
                tree2: dict[str, Any] = {"home/u/": (None, 0o755), "proj/": (None, 0o755)}
                d_ = os.path.dirname(frel)
                while d_ and d_ != "proj":
                    tree2[d_ + "/"] = (None, 0o755)
                    d_ = os.path.dirname(d_)
                tree2["proj/.sqlfluff"] = (render_ini(flat), 0o644)
                tree2[frel] = initial[frel]
                seams.restore_tree(root2, tree2)
                home2 = os.path.join(root2, "home/u")
                fn = z.node({"name": "flat", "root": root2, "cwd": cwd, "seed": seed + 7000, "env": {"HOME": home2, "XDG_CONFIG_HOME": os.path.join(home2, ".config")},
                             "knobs": {"journal_reads": False}})
                try:
                    fr = fn.call("lint_paths", paths=[os.path.relpath(frel, cwd)], processes=1)
                finally:
                    fn.close()
            finally:
                cl.drop_root(root2)
            evaluations += 1
            probes["behavioural_crosschecks"] += 1
            want_v = [rec["violations"] for rec in fr.get("records", [])]
            want_v = want_v[0] if want_v else None
            log.append(["behaviour", frel, opi_b, sha(json.dumps(got_v, sort_keys=True))[:12], sha(json.dumps(want_v, sort_keys=True))[:12]])
            if "exception" in fr or want_v is None:
                probes["behavioural_reference_failed"] += 1
                continue
            if json.loads(json.dumps(got_v)) != json.loads(json.dumps(want_v)):
                def brief(vs: list) -> list:
                    return sorted({(v_.get("code"), v_.get("start_line_no"), v_.get("start_line_pos")) for v_ in vs})
                violations.append({
                    "oracle": "behaviour-vs-flat-config",
                    "signature": "C27:behaviour",
                    "message": "file %s linted in history op #%d behaves differently from the same file linted alone against one flat config holding the model's values %s: history-only %s, flat-only %s" % (
                        frel, opi_b, flat, sorted(set(brief(got_v)) - set(brief(want_v)))[:6], sorted(set(brief(want_v)) - set(brief(got_v)))[:6]),
                })
        if not samples:
            samples.append({
                "sources": world["sources"], "overrides": world["overrides"], "extra": world["extra"],
                "sql_files": world["sqls"], "history": history,
            })
        for v in violations:
            v["replay"] = {"world": world, "history": history, "hashseed": hs, "warm": warm, "tier": tier}
    finally:
        if node is not None:
            node.close()
        cl.drop_root(root)
    uniq: dict = {}
    for v in violations:
        uniq.setdefault((v["oracle"], v["signature"]), v)
    return {
        "digest": digest(log, root),
        "evaluations": evaluations,
        "nontrivial": nontrivial,
        "violations": list(uniq.values()),
        "faults": dict(faults),
        "probes": dict(probes),
        "states": [],
        "schedules": [],
        "sim_time": sim_time,
        "samples": samples,
    }


def shrink_candidates(rp: dict):
    import copy

    from vsim.shrink import list_candidates

    for h in list_candidates(rp["history"]):
        if h:
            r = copy.deepcopy(rp)
            r["history"] = h
            yield "drop history ops", r
    srcs = sorted(k for k in rp["world"]["sources"] if k != "proj/.sqlfluff" and k != rp["world"].get("extra"))
    for keep in list_candidates(srcs):
        r = copy.deepcopy(rp)
        for k in set(srcs) - set(keep):
            r["world"]["sources"].pop(k, None)
            r["world"]["files"].pop(k, None)
        yield "drop config sources", r
