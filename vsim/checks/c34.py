"""C34 Oversized files are skipped, never parsed or modified — scheduled runs vs a skip model."""

from __future__ import annotations

import json
import os
from collections import Counter
from typing import Any, Optional

from vsim import seams
from vsim.cluster import digest
from vsim.rng import Rng, sha
from vsim.seams import MUTATING
from vsim.world import b64, gen_fix_world, ini, sql_files, unb64, world_tree

ID = "C34"
LEVEL = "exploration"
RULE = (
    "one run = a generated project whose file sizes straddle large_file_skip_byte_limit / _char_limit (root limit, "
    "optionally overridden in a nested .sqlfluff; one file pinned at limit-1 / limit / limit+1; multi-byte content "
    "so bytes != chars; large_file_skip_fail on/off), executed by 3 scenarios: API lint or fix, serial and under "
    "seeded SimPool schedules (in-process and forked workers: the skip crosses the pickle boundary as a "
    "DelayedException), and CLI lint/fix; in a third of the scenarios the n-th stat() of an oversized file fails once "
    "(transient ESTALE, n drawn: config discovery stats the path before the size gate does) or every stat() fails (EIO): "
    "the run may drop or abort on that file, it must not parse or rewrite it. Monitors on Lexer.lex / Parser.parse and the disk journal decide "
    "'never parsed, never written'; files_skipped and the exit code are compared with a model written from the "
    "statement. evaluations = scenario executions. non-trivial iff the model skipped >= 1 file and linted >= 1 "
    "file in that execution, or skipped every one of >= 2 files (12 % of worlds set a limit below every file); distinct = distinct (world digest, scenario digest, tape digest)."
)
TIERS = {
    "quick": {"runs": 120, "budget_s": 60, "min_runs": 4, "run_timeout_s": 240},
    "thorough": {"runs": 8000, "budget_s": 800, "min_runs": 40, "run_timeout_s": 600},
}
COMPONENTS_REAL = [
    "sqlfluff Linter.load_raw_file_and_config size gate, templater large_file_check, runner skipped_file_count (serial + ParallelRunner), cli lint/fix exit handling",
]
COMPONENTS_STUBBED = [
    "multiprocessing.Pool -> SimPool scheduler (inproc + forked fresh-process workers)",
    "disk seam journal; virtual clock; seeded uuid4/temp names",
]
ASSUMPTIONS = [
    "skip model: getsize(file) > byte limit (file's effective config, 0 = off) or len(text) > char limit (0 = off)",
]
WARM = "rules,ansi,postgres,bigquery,snowflake"


def gen_world(rng: Rng) -> dict:
    world = gen_fix_world(
        rng.fork("w"),
        {
            "size_limits": True,
            "kinds": ["clean", "fixable", "fixable", "fixable", "unfixable", "parse_err"],
            "min_files": 3,
            "max_files": 7,
            "templater": ["jinja", "jinja", "raw"],
            "runaway": [10],
        },
    )
    # multi-byte content in some files so bytes != chars
    r2 = rng.fork("mb")
    for rel in sql_files(world):
        if r2.chance(0.4):
            data = unb64(world["files"][rel]["b64"])
            data = "-- größe: ☃☃☃ 中文 ünïcödé\n".encode("utf-8") + data
            world["files"][rel]["b64"] = b64(data)
    # pin one limit exactly at a victim's size -1/0/+1
    limits = world["cfg"]["limits"]
    root_core = world["cfg"]["root_core"]
    files = sql_files(world)
    victim = r2.choice(files)
    in_nested = [f_ for f_ in files if world["meta"][f_]["dir"] in world["cfg"]["nested"]]
    if in_nested and r2.chance(0.5):
        # the limit is a per-file setting: prefer a victim whose directory has its own config
        victim = r2.choice(in_nested)
    vdata = unb64(world["files"][victim]["b64"])
    delta = r2.choice([-1, 0, 1])
    which = r2.choice(["byte", "byte", "char", "char", "none"])
    vdir = world["meta"][victim]["dir"]
    if which == "byte":
        lim = max(1, len(vdata) + delta)
        if vdir and vdir in world["cfg"]["nested"] and ("large_file_skip_byte_limit" in world["cfg"]["nested"][vdir] or r2.chance(0.5)):
            world["cfg"]["nested"][vdir]["large_file_skip_byte_limit"] = lim
            world["files"]["proj/%s/.sqlfluff" % vdir]["b64"] = b64(ini({"sqlfluff": world["cfg"]["nested"][vdir]}))
        else:
            root_core["large_file_skip_byte_limit"] = lim
    elif which == "char":
        lim = max(1, len(vdata.decode("utf-8")) + delta)
        if vdir and vdir in world["cfg"]["nested"] and ("large_file_skip_char_limit" in world["cfg"]["nested"][vdir] or r2.chance(0.5)):
            world["cfg"]["nested"][vdir]["large_file_skip_char_limit"] = lim
            world["files"]["proj/%s/.sqlfluff" % vdir]["b64"] = b64(ini({"sqlfluff": world["cfg"]["nested"][vdir]}))
        else:
            root_core["large_file_skip_char_limit"] = lim
    if r2.chance(0.12):
        # degenerate population: (nearly) every file is over the limit - nothing, or a single file, is left to lint
        root_core["large_file_skip_byte_limit"] = r2.choice([5, 10, 40])
        which = "all"
    world["files"]["proj/.sqlfluff"]["b64"] = b64(ini(world["cfg"]["sections"]))
    world["pinned"] = {"victim": victim, "which": which, "delta": delta}
    return world


def model(world: dict) -> dict:
    """-> {rel: None | 'byte' | 'char'} for every discoverable SQL file."""
    root = world["cfg"]["root_core"]
    nested = world["cfg"]["nested"]
    out: dict[str, Any] = {}
    for rel in sql_files(world):
        m = world["meta"][rel]
        if m.get("ignored"):
            continue
        data = unb64(world["files"][rel]["b64"])
        d = m["dir"]
        eff = dict(root)
        # nested configs apply to files in that directory and below
        parts = d.split("/") if d else []
        for i in range(1, len(parts) + 1):
            sub = "/".join(parts[:i])
            if sub in nested:
                eff.update(nested[sub])
        bl = int(eff.get("large_file_skip_byte_limit", 20000) or 0)
        cl = int(eff.get("large_file_skip_char_limit", 0) or 0)
        why = None
        if bl and len(data) > bl:
            why = "byte"
        elif cl and len(data.decode("utf-8")) > cl:
            why = "char"
        out[rel] = why
    return out


def skip_fail(world: dict) -> bool:
    return str(world["cfg"]["root_core"].get("large_file_skip_fail", "False")) == "True"


def gen_scenarios(rng: Rng) -> list[dict]:
    out = []
    for i, (via, procs) in enumerate([("api", 1), (rng.choice(["api", "cli"]), rng.choice([2, 3, 4])), ("cli", rng.choice([1, 2]))]):
        out.append(
            {
                "via": via,
                "action": rng.choice(["lint", "fix"]) if i < 2 else rng.choice(["lint", "fix", "format", "parse"]),
                "processes": procs,
                "lookahead": rng.choice([1, 2, 8]),
                "dequeue": rng.choice(["fifo", "any"]),
                "backend": "forked" if rng.chance(0.3) else "inproc",
                "node_seed": rng.randrange(1 << 30),
                "stat_fault": rng.chance(0.35),
                # which stat() of the victim fails: the n-th one, once (a transient ESTALE/EIO: config
                # discovery stats the path twice before the size gate does), or every one (None)
                "stat_nth": rng.choice([0, 1, 2, 2, 2, 3, None]),
            }
        )
    return out


def run_one(ctx: Any, seed: int, tier: str, replay: Optional[dict] = None) -> dict:
    rng = Rng(seed)
    if replay:
        world = replay["world"]
        scenarios = [replay["scenario"]]
        hs = replay["hashseed"]
        warm = replay.get("warm", WARM)
    else:
        world = gen_world(rng.fork("world"))
        scenarios = gen_scenarios(rng.fork("scenario"))
        hr = rng.fork("hashseed")
        hs = hr.choice(ctx.hashseeds(2))
        warm = WARM if hr.chance(0.85) else ""
    cl = ctx.cluster
    z = cl.zygote(hs, warm)
    root = cl.new_root("C34-%d" % seed)
    initial = world_tree(world)
    mdl = model(world)
    S = {k for k, v in mdl.items() if v}
    cwd = world["cwd"]
    wdig = sha(json.dumps(world["files"], sort_keys=True))[:10]
    log: list = []
    violations: list[dict] = []
    probes: Counter = Counter()
    faults: Counter = Counter()
    nontrivial: list = []
    schedules: list = []
    samples: list = []
    sim_time = 0
    evaluations = 0
    try:
        for si, sc in enumerate(scenarios):
            seams.restore_tree(root, initial)
            events: list = []
            plan = []
            byte_skipped = sorted(r_ for r_ in S if mdl[r_] == "byte")
            if sc.get("stat_fault") and byte_skipped:
                # a transient failure of the size probe itself (EIO/ESTALE on stat) for an
                # oversized file: the run may abort or skip, it must not parse/rewrite the file
                victim = byte_skipped[sc["node_seed"] % len(byte_skipped)]
                nth = sc.get("stat_nth")
                if nth is None:
                    plan = [{"cls": "stat", "path": victim, "repeat": True, "kind": "err", "errno": "EIO"}]
                else:
                    plan = [{"cls": "stat", "path": victim, "nth": nth, "kind": "err", "errno": "ESTALE"}]
            knobs = {"lookahead": sc["lookahead"], "dequeue": sc["dequeue"], "pool_backend": sc["backend"], "journal_reads": bool(plan),
                     "worker_plan": plan}
            n = z.node({"name": "s%d" % si, "root": root, "cwd": cwd, "seed": sc["node_seed"], "knobs": knobs, "tape": sc.get("tape")}, sink=events)
            fix = sc["action"] in ("fix", "format")
            try:
                if sc["via"] == "api":
                    out = n.call("lint_paths", paths=["."], fix=fix, apply_fixes=fix, processes=sc["processes"], retain_files=True, plan=plan)
                else:
                    if fix:
                        argv = [sc["action"], ".", "-p", str(sc["processes"])]
                    elif sc["action"] == "parse":
                        argv = ["parse", ".", "--format", "json"]  # `sqlfluff parse <dir>`: same size gate, serial
                    else:
                        argv = ["lint", ".", "--format", "json", "-p", str(sc["processes"])]
                    out = n.call("cli", argv=argv, plan=plan)
                pool = dict(n.pool)
                fired = dict(n.fired)
            finally:
                tape = n.close()
            evaluations += 1
            after = seams.snapshot_tree(root)
            sim_time += pool.get("clock", 0)
            tdig = sha(repr(tape))[:10]
            schedules.append(tdig)
            sdig = sha(json.dumps({k: v for k, v in sc.items() if k != "tape"}, sort_keys=True))[:10]
            vs: list[tuple] = []

            def norm(p: Optional[str]) -> Optional[str]:
                return None if p is None else os.path.normpath(os.path.join(cwd, p))

            lexed = {norm(e[2]) for e in events if e and e[0] == "lex"}
            parsed = {norm(e[2]) for e in events if e and e[0] == "parse"}
            muts = [e for e in events if e and e[0] == "disk" and e[3] in MUTATING]
            recs = None
            if "records" in out:
                recs = {norm(r["filepath"]): r["violations"] for r in out["records"]}
            elif sc["via"] == "cli" and not fix and sc["action"] != "parse" and "exception" not in out:
                try:
                    recs = {norm(r["filepath"]): r["violations"] for r in json.loads(out.get("stdout") or "[]")}
                except Exception:
                    recs = None
            monfiles = {norm(f["path"]) for f in out.get("mon", {}).get("files", [])}
            faulted = bool(plan) and bool(fired.get("err") or any(e and e[0] == "disk" and len(e) > 6 for e in events))
            if faulted:
                faults["stat_err"] += 1
            aborted = "exception" in out or "crashed" in out
            if aborted and not faulted:
                # is the abort about size limits at all? control: the same scenario with every limit switched off
                ctl_tree = dict(initial)
                for rel_, (data_, mode_) in initial.items():
                    if data_ is not None and os.path.basename(rel_) == ".sqlfluff":
                        kept = [ln for ln in data_.decode("utf-8", "replace").splitlines() if not ln.startswith("large_file_skip_")]
                        kept.insert(1 if kept and kept[0].startswith("[sqlfluff]") else 0, "large_file_skip_byte_limit = 0")
                        ctl_tree[rel_] = (("\n".join(kept) + "\n").encode("utf-8"), mode_)
                seams.restore_tree(root, ctl_tree)
                cn = z.node({"name": "ctl%d" % si, "root": root, "cwd": cwd, "seed": sc["node_seed"], "knobs": dict(knobs, worker_plan=[]), "tape": tape})
                try:
                    if sc["via"] == "api":
                        cout = cn.call("lint_paths", paths=["."], fix=fix, apply_fixes=fix, processes=sc["processes"], retain_files=True)
                    else:
                        cout = cn.call("cli", argv=argv)
                finally:
                    cn.close()
                if "exception" in cout or "crashed" in cout:
                    probes["abort_unrelated_to_limits"] += 1  # aborts without any limit, too: not this property's business
                else:
                    vs.append(("exception", "run aborted with %s although it completes when the size limits are switched off" % (out.get("exception"),), None))
            for rel in sorted(S):
                why = mdl[rel]
                if rel in lexed or rel in parsed:
                    vs.append(("parsed", "%s is over the %s limit but was lexed/parsed" % (rel, why), why))
                stem = os.path.splitext(rel)[0]
                hits = [e for e in muts if e[4] == rel or e[4].startswith(stem + ".")]
                if hits or after.get(rel) != initial.get(rel):
                    vs.append(("modified", "%s is over the %s limit but was written to" % (rel, why), why))
                if (recs is not None and rel in recs) or rel in monfiles:
                    vs.append(("reported", "%s is over the %s limit (skipped) but appears in the per-file results as a linted file" % (rel, why), why))
            for rel in sorted(set(mdl) - S):
                if faulted:
                    break
                if recs is not None and rel not in recs:
                    vs.append(("missing", "%s is within the limits but is absent from the results" % rel, None))
            if "files_skipped" in out and out["files_skipped"] != len(S) and not faulted:
                whys = {mdl[r] for r in S}
                vs.append(("count", "files_skipped=%r but %d files exceed their limit (%s)" % (out["files_skipped"], len(S), sorted(S)), "char" if whys == {"char"} or out["files_skipped"] == sum(1 for r in S if mdl[r] == "byte") else None))
            if sc["via"] == "cli" and sc["action"] != "parse" and "exit_code" in out and "exception" not in out and not faulted:
                code = out["exit_code"]
                if skip_fail(world) and S and code == 0:
                    whys = {mdl[r] for r in S}
                    vs.append(("exit", "large_file_skip_fail is on and %d file(s) were skipped but exit code is 0" % len(S), "char" if whys == {"char"} else None))
                if not skip_fail(world) and not fix and recs is not None:
                    want = 1 if any(any(not v.get("warning") for v in vl) for vl in recs.values()) else 0
                    if code != want:
                        vs.append(("exit", "exit code %d but violations imply %d (skip_fail off, %d skipped)" % (code, want, len(S)), None))
            if S and not (set(mdl) - S):
                probes["all_files_skipped_runs"] += 1
            if S and ((set(mdl) - S) or len(S) >= 2):
                nontrivial.append("%s|%s|%s" % (wdig, sdig, tdig))
            probes["skipped_byte"] += sum(1 for r in S if mdl[r] == "byte")
            probes["skipped_char"] += sum(1 for r in S if mdl[r] == "char")
            probes["exec_%s_%s_p%d_%s" % (sc["via"], "fix" if fix else "lint", min(sc["processes"], 2), sc["backend"] if sc["processes"] > 1 else "serial")] += 1
            if world["pinned"]["which"] not in ("none", "all"):
                probes["boundary_%s_%+d" % (world["pinned"]["which"], world["pinned"]["delta"])] += 1
            log.append([si, sdig, tdig, sorted((k, sha(repr(v))[:8]) for k, v in after.items()), [v[0] for v in vs], out.get("files_skipped"), out.get("exit_code")])
            for oracle, msg, why in vs:
                sig = "C34:" + oracle
                if why == "char" and oracle in ("reported", "count", "exit"):
                    sig = "F4:char-limit-skip-swallowed-in-render_string"
                sc2 = dict(sc)
                sc2["tape"] = tape
                violations.append({"oracle": oracle, "signature": sig, "message": msg,
                                   "replay": {"world": world, "scenario": sc2, "hashseed": hs, "warm": warm, "tier": tier}})
            if not samples:
                samples.append({
                    "limits": {k: v for k, v in world["cfg"]["root_core"].items() if k.startswith("large_file")},
                    "nested": world["cfg"]["nested"],
                    "pinned": world["pinned"],
                    "files": {rel: {"bytes": len(unb64(world["files"][rel]["b64"])), "model_skip": mdl.get(rel)} for rel in sql_files(world)},
                    "scenario": {k: v for k, v in sc.items() if k != "tape"},
                    "observed_files_skipped": out.get("files_skipped"),
                })
    finally:
        cl.drop_root(root)
    uniq: dict = {}
    for v in violations:
        uniq.setdefault((v["oracle"], v["signature"]), v)
    return {
        "digest": digest(log, root),
        "evaluations": evaluations,
        "nontrivial": nontrivial,
        "violations": list(uniq.values()),
        "faults": dict(faults),
        "probes": dict(probes),
        "states": [],
        "schedules": schedules,
        "sim_time": sim_time,
        "samples": samples,
    }


def shrink_candidates(rp: dict):
    import copy

    from vsim.shrink import drop_world_files, tape_candidates

    def fix(r: dict, removed: set) -> bool:
        sc = r["scenario"]
        if sc.get("file") in removed:
            return False
        return len(r["world"]["meta"]) >= 1

    yield from drop_world_files(rp, fixups=fix)
    sc = rp["scenario"]
    for t in tape_candidates(sc.get("tape") or []):
        r = copy.deepcopy(rp)
        r["scenario"]["tape"] = t
        yield "tape", r
    if sc.get("plan"):
        r = copy.deepcopy(rp)
        r["scenario"]["plan"] = []
        yield "no fault plan", r
    if sc.get("processes", 1) > 2:
        r = copy.deepcopy(rp)
        r["scenario"]["processes"] = 2
        yield "processes=2", r
