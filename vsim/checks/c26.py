"""C26 Writing fixed files is atomic and faithful — fault enumeration.

Level A: LintedFile.persist_tree executed repeatedly from a restored
directory, one injected fault per execution, *every* op of the fault-free
trace x every applicable fault kind, plus every legal post-power-loss disk
state (namespace-journal prefix x content outcome of every non-durable
inode). Sampled: 2-fault sequences.
Level B: Linter.lint_paths(apply_fixes=True) / CLI fix over several files,
serial and under SimPool, with sampled fault plans.
"""

from __future__ import annotations

import codecs
import itertools
import os
from collections import Counter
from typing import Any, Optional

from vsim import seams
from vsim.cluster import digest
from vsim.rng import Rng, sha
from vsim.seams import ERRNOS_BY_CLASS
from vsim.world import FIXABLE, b64, corpus, encode_body, ini, unb64

ID = "C26"
LEVEL = "fault_enumeration"
RULE = (
    "workload = (1-3 fixable files x encoding x mode x suffix x buffer/raw-write-size x fsync_persists_dirent knob) "
    "drawn from the seed; for each workload the fault-free disk-op trace of persist_tree is recorded and EVERY op is "
    "hit with every applicable fault (err(errno) per op class, err_after, short, eintr, kill before, kill inside each "
    "write, power loss before/inside with every namespace-journal prefix x every content outcome of every "
    "non-durable inode), then sampled 2-fault sequences and multi-file lint_paths/CLI runs (serial and SimPool). "
    "evaluations = executions of the real write path + power-loss states judged. A case is non-trivial iff its "
    "injected fault actually fired (or, for power states, the state differs from both 'nothing happened' and "
    "'everything happened'); distinct = distinct (workload digest, fault plan, post-state digest)."
)
TIERS = {
    "quick": {"runs": 20, "budget_s": 60, "min_runs": 4, "run_timeout_s": 240},
    "thorough": {"runs": 640, "budget_s": 780, "min_runs": 40, "run_timeout_s": 600},
}
COMPONENTS_REAL = [
    "sqlfluff LintedFile.persist_tree/_safe_create_replace_file, Linter.lint_paths, cli fix",
    "CPython tempfile.NamedTemporaryFile, io.BufferedWriter, io.TextIOWrapper, shutil.move/copyfile/copystat",
    "real tmpfs directory for file bytes",
]
COMPONENTS_STUBBED = [
    "raw file layer (SimRaw over FileIO): fault injection point",
    "os.open/stat/fsync/chmod/rename/unlink wrappers (journal + faults)",
    "power-loss durability (shadow model: ordered metadata journal, data durable only after fsync)",
    "multiprocessing.Pool -> SimPool (level B)",
    "temp-name RNG (seeded)",
]
ASSUMPTIONS = [
    "durability model: metadata ops are ordered (journalling FS), file data is durable only after fsync",
    "a zygote fork equals a fresh interpreter that imported sqlfluff",
    "tmpfs behaves like a POSIX filesystem for non-faulted operations",
    "sqlfluff performs no disk op through a C extension that bypasses io/os (true for this tree: no Rust ext)",
]

BOMS = [codecs.BOM_UTF8, codecs.BOM_UTF16_LE, codecs.BOM_UTF16_BE]


# ---------------------------------------------------------------------------
# workload
# ---------------------------------------------------------------------------


def gen_workload(rng: Rng) -> dict:
    n = rng.weighted([(1, 5), (2, 3), (3, 2)])
    files: dict[str, dict] = {}
    meta: dict[str, dict] = {}
    enc_pool = ["ascii", "utf-8", "utf-8", "utf-8-sig", "utf-16-le-bom", "utf-16-be-bom", "cp1252"]
    cfg_enc = rng.choice(["autodetect", "autodetect", "autodetect", "explicit"])
    big = rng.chance(0.2)
    if big:
        n = 1
    for i in range(n):
        name = "f%d.sql" % i
        base = rng.choice(corpus("ansi"))
        if big:
            # > 8192 characters of fixed content: exercises multi-chunk buffering
            parts = []
            while sum(len(p_) for p_ in parts) < rng.choice([8300, 9000, 17000]):
                parts.append(rng.choice(corpus("ansi")).rstrip("\n") + "\n;\n\n")
            base = "".join(parts).rstrip("\n;") + "\n"
        text = base
        for _ in range(rng.randint(1, 3)):
            inj = rng.choice(sorted(FIXABLE))
            t2 = FIXABLE[inj](rng, text)
            if t2:
                text = t2
        enc = rng.choice(enc_pool)
        if enc in ("utf-8", "utf-8-sig", "utf-16-le-bom", "utf-16-be-bom"):
            text = "-- naïve café ☃ 中文\n" + text
        elif enc == "cp1252":
            text = "-- naïve café à la carte, déjà vu, über\n" + text
        nl = rng.choice(["lf", "lf", "crlf"])
        pyenc = {"ascii": "ascii"}.get(enc, enc)
        data = encode_body(rng, text, pyenc, nl)
        mode = rng.choice([0o600, 0o644, 0o755, 0o444, 0o640, 0o664])
        files["proj/" + name] = {"b64": b64(data), "mode": mode}
        meta["proj/" + name] = {"encoding": enc, "newline": nl, "mode": mode}
    core: dict[str, Any] = {"dialect": "ansi"}
    if cfg_enc == "explicit" and n == 1:
        e = list(meta.values())[0]["encoding"]
        core["encoding"] = {"utf-16-le-bom": "utf-16", "utf-16-be-bom": "utf-16"}.get(e, e)
    files["proj/.sqlfluff"] = {"b64": b64(ini({"sqlfluff": core})), "mode": 0o644}
    knobs = {
        "bufsize": rng.choice([7, 16, 64, 8192]) if not big else rng.choice([8192, 4096, 1000]),
        "rawmax": rng.choice([0, 0, 5, 17, 64]) if not big else rng.choice([0, 0, 3000]),
        "fsync_persists_dirent": rng.chance(0.5),
        "journal_reads": True,
    }
    suffix = rng.choice(["", "", "_fixed"])
    if suffix and rng.chance(0.5):
        # the suffixed output already exists (left by an earlier run): it, too, must hold its complete
        # previous content or the complete new content at every failure point
        for rel in sorted(meta):
            if rng.chance(0.7):
                r_, e_ = os.path.splitext(rel)
                files[r_ + suffix + e_] = {"b64": b64(b"-- output of an earlier fix run\nSELECT 1\n"), "mode": rng.choice([0o644, 0o600])}
    return {
        "files": files,
        "dirs": ["home/u", "proj"],
        "cwd": "proj",
        "meta": meta,
        "suffix": suffix,
        "knobs": knobs,
    }


def tree_of(world: dict) -> dict:
    t: dict[str, Any] = {}
    for d in world["dirs"]:
        t[d + "/"] = (None, 0o755)
    for rel, f in world["files"].items():
        t[rel] = (unb64(f["b64"]), f["mode"])
    return t


def restore(root: str, tree: dict) -> None:
    seams.restore_tree(root, tree)


# ---------------------------------------------------------------------------
# fault plans
# ---------------------------------------------------------------------------


def single_faults(trace: list, rng: Rng) -> list[list[dict]]:
    plans: list[list[dict]] = []
    for ev in trace:
        k, cls, rel, info = ev[0], ev[1], ev[2], ev[3]
        if cls == "DEATH":
            continue
        for e in ERRNOS_BY_CLASS.get(cls, ["EIO"]):
            plans.append([{"at": k, "kind": "err", "errno": e}])
        if cls in ("write", "fsync", "close", "chmod", "rename"):
            plans.append([{"at": k, "kind": "err_after"}])
        if cls == "write":
            n = info.get("n", 0)
            if n > 1:
                plans.append([{"at": k, "kind": "short", "bytes": rng.randint(1, n - 1)}])
                plans.append([{"at": k, "kind": "short", "bytes": 1}])
            plans.append([{"at": k, "kind": "eintr"}])
            for off in sorted({0, 1, n // 2, max(n - 1, 0), rng.randint(0, max(n, 1))}):
                plans.append([{"at": k, "kind": "kill_mid", "bytes": off}])
                plans.append([{"at": k, "kind": "power_mid", "bytes": off}])
        plans.append([{"at": k, "kind": "kill"}])
        plans.append([{"at": k, "kind": "power"}])
    return plans


# ---------------------------------------------------------------------------
# power-loss states
# ---------------------------------------------------------------------------


def power_states(initial: dict, sh: dict, persists_dirent: bool, cap: int = 400):
    """Yield (label, {rel: bytes}) for every legal post-power-loss state."""
    ns = sh["ns"]
    lo = sh["ns_durable_upto"] if persists_dirent else 0
    vol = sh.get("volatile", {})
    init_ino = {rel: ino for ino, rel in sh["initial_path"].items()}
    count = 0
    for k in range(lo, len(ns) + 1):
        # namespace after the first k metadata ops
        m: dict[str, str] = {}
        for rel, (data, mode) in initial.items():
            if data is None:
                continue
            m[rel] = init_ino.get(rel, "init:" + rel)
        for _, kind, a, b in ns[:k]:
            if kind == "create":
                m[a] = b
            elif kind == "rename":
                if a in m:
                    m[b] = m.pop(a)
            elif kind == "unlink":
                m.pop(a, None)
        inos = sorted(set(m.values()))
        options: dict[str, list] = {}
        for i in inos:
            if i.startswith("init:"):
                options[i] = [("same", initial[i[5:]][0])]
                continue
            v = vol.get(i)
            d = sh["durable"].get(i)
            if not sh["dirty"].get(i, False):
                options[i] = [("durable", d if d is not None else (v or b""))]
                continue
            v = v or b""
            opts = [("old", d if d is not None else b""), ("empty", b""), ("full", v)]
            if len(v) > 1:
                opts.append(("torn", v[: len(v) // 2]))
                opts.append(("torn-1", v[:-1]))
                opts.append(("zeros", b"\x00" * len(v)))
            seen = set()
            uniq = []
            for lab, dat in opts:
                if dat not in seen:
                    seen.add(dat)
                    uniq.append((lab, dat))
            options[i] = uniq
        for combo in itertools.product(*[options[i] for i in inos]):
            content = {i: c for i, c in zip(inos, combo)}
            state = {rel: content[i][1] for rel, i in m.items()}
            label = "ns[:%d/%d] " % (k, len(ns)) + ",".join(
                "%s=%s" % (i, content[i][0]) for i in inos if not i.startswith("init:")
            )
            yield label, state
            count += 1
            if count >= cap:
                return


# ---------------------------------------------------------------------------
# oracle
# ---------------------------------------------------------------------------


def fixed_bytes(prep: dict) -> bytes:
    return prep["fix_string"].encode(prep["encoding"])


def bom_of(b: bytes) -> Optional[str]:
    if b.startswith(codecs.BOM_UTF8):
        return "utf-8"
    if b.startswith(codecs.BOM_UTF16_LE) or b.startswith(codecs.BOM_UTF16_BE):
        return "utf-16"
    return None


def judge_content(target: str, outpath: str, orig: bytes, fixed: bytes, files: dict, suffix: str, what: str, prev_out: Optional[bytes] = None):
    """Atomicity: target/out path complete original or complete fixed. -> message or None

    prev_out: content the suffixed output path held before the run (None: it did not exist).
    """
    if suffix:
        if files.get(target) != orig:
            return "%s: original file modified although a fixed-file suffix is set (%r...)" % (what, (files.get(target) or b"<absent>")[:40])
        o = files.get(outpath)
        if prev_out is None:
            if o is not None and o != fixed:
                return "%s: suffixed output %s is neither absent nor complete (%d bytes, expected %d)" % (what, outpath, len(o), len(fixed))
        else:
            if o is None:
                return "%s: suffixed output %s existed before the run and is gone now" % (what, outpath)
            if o != fixed and o != prev_out:
                return "%s: suffixed output %s holds neither its complete previous content (%d B) nor the complete fixed content (%d B): %d B %r..." % (
                    what, outpath, len(prev_out), len(fixed), len(o), o[:40])
        return None
    cur = files.get(target)
    if cur is None:
        return "%s: target %s does not exist" % (what, target)
    if cur != orig and cur != fixed:
        return "%s: target holds neither the complete original (%d B) nor the complete fixed content (%d B): %d B %r..." % (
            what, len(orig), len(fixed), len(cur), cur[:40])
    return None


def signature_for(journal: list, outrel: str) -> str:
    renamed_err = False
    for ev in journal:
        if ev[1] == "rename" and len(ev) > 4 and ev[4].get("fault") == "err":
            renamed_err = True
        if renamed_err and ev[1] == "open_w" and ev[2] == outrel:
            return "F3:rename-error-then-shutil.move-copies-in-place"
    return "C26:generic"


def judge_execution(world: dict, rel: str, prep: dict, plan: list, out: dict, after: dict, initial: dict, stats: Counter):
    """-> list of violations for one execution (+ its power states)."""
    suffix = world["suffix"]
    orig, mode0 = initial[rel]
    fixed = fixed_bytes(prep)
    if suffix:
        r, e = os.path.splitext(rel)
        outrel = r + suffix + e
    else:
        outrel = rel
    files = {k: v[0] for k, v in after.items() if v[0] is not None}
    prev_out = initial[outrel][0] if (suffix and outrel in initial) else None
    vio: list[dict] = []
    sig = signature_for(out["journal"], outrel)

    def add(oracle: str, msg: str, extra: Optional[dict] = None) -> None:
        vio.append({"oracle": oracle, "signature": sig, "message": msg, "extra": extra or {}})

    expected_entries = set(k for k in initial if initial[k][0] is not None)
    entries = set(files)
    crashed = "crashed" in out
    kinds = [p["kind"] for p in plan]
    if "returned" in out:
        stats["returned"] += 1
        if files.get(outrel) != fixed:
            add("returned-content", "persist returned success but %s != fix_string.encode(%s): got %r..." % (outrel, prep["encoding"], (files.get(outrel) or b"<absent>")[:60]))
        if bom_of(orig) != bom_of(files.get(outrel, b"")):
            add("returned-bom", "BOM changed: original %s, written %s" % (bom_of(orig), bom_of(files.get(outrel, b""))))
        if outrel in after and after[outrel][1] != mode0:
            add("returned-mode", "mode of %s is %o, original was %o" % (outrel, after[outrel][1], mode0))
        if suffix and (files.get(rel) != orig or after[rel][1] != mode0):
            add("suffix-original-modified", "original modified despite suffix")
        if entries != expected_entries | {outrel}:
            add("returned-leftover", "unexpected directory entries after success: %s" % sorted(entries ^ (expected_entries | {outrel})))
        try:
            if files.get(outrel, b"").decode(prep["encoding"]) != prep["fix_string"]:
                add("returned-decode", "written bytes do not decode to the fixed string")
        except Exception as e:
            add("returned-decode", "written bytes undecodable in %s: %r" % (prep["encoding"], e))
    elif "raised" in out:
        stats["raised"] += 1
        m = judge_content(rel, outrel, orig, fixed, files, suffix, "after failed write (%s)" % out["raised"][:2], prev_out)
        if m:
            add("failed-content", m)
        cleanup_faulted = len(plan) > 1 and any(
            ev[1] in ("stat", "unlink") and len(ev) > 4 for ev in out["journal"]
        )
        if not cleanup_faulted:
            extra_entries = entries - expected_entries - {outrel}
            if extra_entries:
                add("failed-leftover", "failed write left temporary file(s) behind: %s" % sorted(extra_entries))
    elif crashed:
        stats["crashed"] += 1
        m = judge_content(rel, outrel, orig, fixed, files, suffix, "after kill (%s)" % out["crashed"], prev_out)
        if m:
            add("kill-content", m)
    # power-loss analysis: at the crash point, or after a successful return
    if (crashed and out["crashed"].startswith("power")) or "returned" in out or "raised" in out:
        sh = out["shadow"]
        nstates = 0
        for label, state in power_states(initial, sh, world["knobs"]["fsync_persists_dirent"]):
            nstates += 1
            m = judge_content(rel, outrel, orig, fixed, state, suffix, "after power loss [%s]" % label, prev_out)
            if m:
                add("power-content", m, {"state": label})
                break
        stats["power_states"] += nstates
    return vio


# ---------------------------------------------------------------------------
# run
# ---------------------------------------------------------------------------


def _plan_key(plan: list) -> str:
    return ";".join("%s@%s%s" % (p["kind"], p.get("at", p.get("cls")), ":" + p["errno"] if "errno" in p else "") for p in plan)


def run_one(ctx: Any, seed: int, tier: str, replay: Optional[dict] = None) -> dict:
    rng = Rng(seed)
    if replay:
        world = replay["world"]
    else:
        world = gen_workload(rng.fork("world"))
    knobs = dict(world["knobs"])
    hs = rng.fork("hashseed").choice(ctx.hashseeds())
    cl = ctx.cluster
    z = cl.zygote(hs)
    root = cl.new_root("C26-%d" % seed)
    initial = tree_of(world)
    stats: Counter = Counter()
    faults: Counter = Counter()
    violations: list[dict] = []
    nontrivial: set = set()
    states: set = set()
    samples: list = []
    log: list = []
    evaluations = 0
    wdig = sha(repr(sorted((k, v["b64"], v["mode"]) for k, v in world["files"].items())) + world["suffix"])[:12]
    node = None
    try:
        restore(root, initial)
        node = z.node({"name": "n0", "root": root, "cwd": world["cwd"], "seed": seed, "knobs": knobs}, sink=None)
        targets = sorted(world["meta"])
        level_b = len(targets) > 1
        frng = rng.fork("faults")
        for rel in targets:
            restore(root, initial)
            prep = node.call("prepare_persist", path=os.path.relpath(rel, world["cwd"]), handle=rel)
            if prep.get("files") != 1 or not prep.get("fixable"):
                stats["not_fixable"] += 1
                continue
            log.append(["prep", rel, prep["encoding"], sha(prep["fix_string"])[:12]])

            def execute(plan: list) -> tuple[dict, dict]:
                restore(root, initial)
                out = node.call("persist", handle=rel, suffix=world["suffix"], plan=plan)
                after = seams.snapshot_tree(root)
                return out, after

            if replay and replay.get("level") == "A":
                if replay["target"] != rel:
                    continue
                plans = [replay["plan"]]
            else:
                out0, after0 = execute([])
                evaluations += 1
                trace = out0["journal"]
                log.append(["trace", rel, [[e[1], e[2]] for e in trace]])
                for v in judge_execution(world, rel, prep, [], out0, after0, initial, stats):
                    v["replay"] = {"level": "A", "world": world, "target": rel, "plan": [], "tier": tier}
                    violations.append(v)
                plans = single_faults(trace, frng)
                if len(plans) > 700:
                    # very long traces (big files / tiny raw writes): sample, do not enumerate
                    stats["plans_sampled_not_enumerated"] += 1
                    plans = frng.sample(plans, 700)
                if not samples:
                    samples.append(
                        {
                            "workload": {k: world["meta"][k] for k in world["meta"]},
                            "suffix": world["suffix"],
                            "knobs": knobs,
                            "fault_free_trace": [[e[1], e[2].replace(rel, "<target>")] for e in trace],
                            "single_fault_plans": len(plans),
                            "example_plan": plans[len(plans) // 2],
                        }
                    )
            two_fault_budget = 0 if replay else (30 if tier == "quick" else 80)
            for plan in plans:
                out, after = execute(plan)
                evaluations += 1
                fired = any(len(e) > 4 for e in out["journal"])
                for e in out["journal"]:
                    if len(e) > 4:
                        faults[e[4]["fault"]] += 1
                sdig = sha(repr(sorted((k, v[0]) for k, v in after.items())))[:12]
                states.add(sdig)
                if fired:
                    nontrivial.add("%s|%s|%s|%s" % (wdig, rel, _plan_key(plan), sdig))
                vs = judge_execution(world, rel, prep, plan, out, after, initial, stats)
                log.append(["exec", rel, _plan_key(plan), list(k for k in ("returned", "raised", "crashed") if k in out), sdig, len(vs)])
                for v in vs:
                    v["replay"] = {"level": "A", "world": world, "target": rel, "plan": plan, "tier": tier}
                    violations.append(v)
                # sampled second fault, placed in the trace the first one produced
                if two_fault_budget > 0 and fired and "crashed" not in out and frng.chance(0.25):
                    first_at = plan[0]["at"]
                    later = [e for e in out["journal"] if e[0] > first_at and e[1] != "DEATH"]
                    if later:
                        e2 = frng.choice(later)
                        kinds2 = ["kill", "power", "err"]
                        if e2[1] == "write":
                            kinds2 += ["kill_mid", "power_mid", "short"]
                        k2 = frng.choice(kinds2)
                        f2: dict[str, Any] = {"at": e2[0], "kind": k2}
                        if k2 == "err":
                            f2["errno"] = frng.choice(ERRNOS_BY_CLASS.get(e2[1], ["EIO"]))
                        if k2 in ("kill_mid", "power_mid", "short"):
                            f2["bytes"] = frng.randint(1, max(1, e2[3].get("n", 2) - 1))
                        plan2 = [dict(plan[0]), f2]
                        two_fault_budget -= 1
                        out2, after2 = execute(plan2)
                        evaluations += 1
                        nf = sum(1 for e in out2["journal"] if len(e) > 4)
                        for e in out2["journal"]:
                            if len(e) > 4:
                                faults[e[4]["fault"]] += 1
                        sd2 = sha(repr(sorted((k, v[0]) for k, v in after2.items())))[:12]
                        states.add(sd2)
                        if nf >= 2:
                            nontrivial.add("%s|%s|%s|%s" % (wdig, rel, _plan_key(plan2), sd2))
                            stats["two_fault_fired"] += 1
                        vs2 = judge_execution(world, rel, prep, plan2, out2, after2, initial, stats)
                        log.append(["exec2", rel, _plan_key(plan2), sd2, len(vs2)])
                        for v in vs2:
                            v["replay"] = {"level": "A", "world": world, "target": rel, "plan": plan2, "tier": tier}
                            violations.append(v)
        if (level_b and not replay) or (replay and replay.get("level") == "B"):
            evb, vb = level_b_runs(ctx, z, root, world, initial, knobs, seed, rng.fork("levelB"), tier, stats, faults, nontrivial, states, log, replay)
            evaluations += evb
            violations.extend(vb)
    finally:
        if node is not None:
            node.close()
        cl.drop_root(root)
    evaluations += stats["power_states"]
    # dedupe violations by (oracle, signature)
    uniq: dict = {}
    for v in violations:
        uniq.setdefault((v["oracle"], v["signature"]), v)
    return {
        "digest": digest(log, root),
        "evaluations": evaluations,
        "nontrivial": sorted(nontrivial),
        "violations": list(uniq.values()),
        "faults": dict(faults),
        "probes": dict(stats),
        "states": sorted(states),
        "schedules": [],
        "sim_time": 0,
        "samples": samples,
    }


# ---------------------------------------------------------------------------
# level B: several files through lint_paths / CLI, serial and SimPool
# ---------------------------------------------------------------------------


def level_b_runs(ctx, z, root, world, initial, knobs, seed, rng, tier, stats, faults, nontrivial, states, log, replay):
    violations: list[dict] = []
    evaluations = 0
    targets = sorted(world["meta"])
    suffix = world["suffix"]
    # reference: serial, fault-free, fresh node
    restore(root, initial)
    kn = dict(knobs, record_patches=True)
    ref = z.node({"name": "ref", "root": root, "cwd": world["cwd"], "seed": seed, "knobs": kn})
    try:
        r0 = ref.call("lint_paths", paths=["."], fix=True, apply_fixes=True, fixed_file_suffix=suffix, processes=1)
    finally:
        ref.close()
    after0 = seams.snapshot_tree(root)
    evaluations += 1
    fixed: dict[str, bytes] = {}
    outrels: dict[str, str] = {}
    for rel in targets:
        r, e = os.path.splitext(rel)
        outrel = r + suffix + e if suffix else rel
        outrels[rel] = outrel
        if outrel in after0:
            fixed[rel] = after0[outrel][0]
    if "exception" in r0 or "crashed" in r0:
        return evaluations, violations
    n_plans = 1 if replay else (6 if tier == "quick" else 14)
    for j in range(n_plans):
        if replay:
            cfg = replay["cfg"]
        else:
            victim = rng.choice(targets)
            vb = os.path.basename(outrels[victim]) if False else os.path.basename(victim)
            kind = rng.choice(["err", "err", "kill", "kill_mid", "err_after", "short", "power", "power", "power_mid"])
            cls = rng.choice(["rename", "write", "fsync", "chmod", "create", "close"])
            if kind in ("kill_mid", "short", "power_mid"):
                cls = "write"
            if kind == "err_after" and cls == "create":
                cls = "rename"
            f: dict[str, Any] = {"cls": cls, "path": os.path.splitext(vb)[0], "nth": 0, "kind": kind}
            if kind == "err":
                f["errno"] = rng.choice(ERRNOS_BY_CLASS[cls])
            if kind in ("kill_mid", "short", "power_mid"):
                f["bytes"] = rng.randint(1, 20)
            cfg = {
                "plan": [f],
                "processes": rng.choice([1, 2, 3]),
                "via": rng.choice(["api", "api", "cli"]),
                "lookahead": rng.choice([1, 2, 6]),
                "dequeue": rng.choice(["fifo", "any"]),
                "node_seed": rng.randrange(1 << 30),
            }
        restore(root, initial)
        kn2 = dict(knobs, lookahead=cfg["lookahead"], dequeue=cfg["dequeue"])
        n = z.node({"name": "b%d" % j, "root": root, "cwd": world["cwd"], "seed": cfg["node_seed"], "knobs": kn2, "tape": cfg.get("tape")})
        try:
            if cfg["via"] == "api":
                out = n.call("lint_paths", paths=["."], fix=True, apply_fixes=True, fixed_file_suffix=suffix,
                             processes=cfg["processes"], plan=cfg["plan"], retain_files=False,
                             export_shadow=any(p_["kind"].startswith("power") for p_ in cfg["plan"]))
            else:
                argv = ["fix", ".", "-p", str(cfg["processes"])]
                if suffix:
                    argv += ["--fixed-suffix", suffix]
                out = n.call("cli", argv=argv, plan=cfg["plan"])
            fired = dict(n.fired)
        finally:
            tape = n.close()
        evaluations += 1
        after = seams.snapshot_tree(root)
        files = {k: v[0] for k, v in after.items() if v[0] is not None}
        for k, c in fired.items():
            if ":" not in k:
                faults[k] += c
        did_fire = any(c for k, c in fired.items())
        sdig = sha(repr(sorted(files.items())))[:12]
        states.add(sdig)
        if did_fire:
            nontrivial.add("B|%s|%s|%s" % (sha(repr(cfg["plan"]))[:8], cfg["processes"], sdig))
            stats["levelB_fault_fired"] += 1
        crashed = "crashed" in out
        vs: list[dict] = []
        for rel in targets:
            if rel not in fixed:
                continue
            m = judge_content(rel, outrels[rel], initial[rel][0], fixed[rel], files, suffix,
                              "multi-file %s run (p=%d) %s" % (cfg["via"], cfg["processes"], "after kill" if crashed else "after return/raise"),
                              initial[outrels[rel]][0] if (suffix and outrels[rel] in initial) else None)
            if m:
                vs.append({"oracle": "levelB-content", "signature": "C26:generic", "message": m})
        if crashed and "shadow" in out and str(out.get("crashed", "")).startswith("power"):
            # power loss in the middle of a multi-file run: every legal post-crash disk state, every file
            nstates = 0
            for label, state in power_states(initial, out["shadow"], world["knobs"]["fsync_persists_dirent"], cap=250):
                nstates += 1
                bad = None
                for rel in targets:
                    if rel not in fixed:
                        continue
                    bad = judge_content(rel, outrels[rel], initial[rel][0], fixed[rel], state, suffix,
                                        "multi-file %s run (p=%d) after power loss [%s]" % (cfg["via"], cfg["processes"], label),
                                        initial[outrels[rel]][0] if (suffix and outrels[rel] in initial) else None)
                    if bad:
                        break
                if bad:
                    vs.append({"oracle": "levelB-power-content", "signature": "C26:generic", "message": bad})
                    break
            stats["levelB_power_states"] += nstates
        if not crashed:
            expected = set(k for k in initial if initial[k][0] is not None) | set(outrels.values())
            extra = set(files) - expected
            if extra and not any(p["cls"] in ("unlink", "stat") for p in cfg["plan"]):
                vs.append({"oracle": "levelB-leftover", "signature": "C26:generic",
                           "message": "temporary file(s) left behind after a failed write in a multi-file run: %s" % sorted(extra)})
        log.append(["B", j, cfg["via"], cfg["processes"], repr(cfg["plan"]), sdig, len(vs), out.get("exception"), out.get("exit_code")])
        for v in vs:
            c2 = dict(cfg)
            c2["tape"] = tape
            v["replay"] = {"level": "B", "world": world, "cfg": c2, "tier": tier}
            violations.append(v)
    return evaluations, violations


def shrink_candidates(rp: dict):
    import copy

    from vsim.shrink import list_candidates

    if rp.get("level") == "A":
        plan = rp.get("plan") or []
        if len(plan) > 1:
            for p in list_candidates(plan):
                r = copy.deepcopy(rp)
                r["plan"] = p
                yield "drop fault", r
        others = sorted(k for k in rp["world"]["meta"] if k != rp["target"])
        for keep in list_candidates(others):
            r = copy.deepcopy(rp)
            for k in set(others) - set(keep):
                r["world"]["files"].pop(k, None)
                r["world"]["meta"].pop(k, None)
            yield "drop other files", r
        for knob, val in (("rawmax", 0), ("bufsize", 8192)):
            if rp["world"]["knobs"].get(knob) != val:
                r = copy.deepcopy(rp)
                r["world"]["knobs"][knob] = val
                yield "%s=%s" % (knob, val), r
    else:
        cfg = rp["cfg"]
        from vsim.shrink import tape_candidates

        for t in tape_candidates(cfg.get("tape") or []):
            r = copy.deepcopy(rp)
            r["cfg"]["tape"] = t
            yield "tape", r
        if cfg["processes"] > 1:
            r = copy.deepcopy(rp)
            r["cfg"]["processes"] = 1
            yield "serial", r
