"""C32 Linting is read-only and repeatable — process histories vs fresh processes."""

from __future__ import annotations

import json
import os
from collections import Counter
from typing import Any, Optional

from vsim import seams
from vsim.cluster import digest
from vsim.rng import Rng, sha
from vsim.seams import MUTATING
from vsim.world import KINDS, gen_fix_world, sql_files, unb64, world_tree

ID = "C32"
LEVEL = "exploration"
RULE = (
    "one run = a generated project (several dialects via nested configs, jinja/placeholder/raw templater, noqa, a "
    "parse-error file, a template-error file, multi-CTE files, SQL of sqlfluff's own rule test cases with their dialect as an "
    "in-file directive, and in 30 % of runs 'latch bait': two files that share the rule configuration but differ in a "
    "per-file fact rules look at - dialect, ignore_templated_areas) and a history of 3-6 operations (plus environment events) executed in ONE "
    "long-lived node: lint_paths over subsets (serial / SimPool), CLI lint in json/yaml/human/github-annotation "
    "formats, sqlfluff.lint(str), lint_string, CLI parse, CLI render, interleaved with environment events (listing "
    "reshuffle, clock jump, config-cache eviction, restart). Read-only: during every op the disk journal holds no "
    "mutating op under the world root and (bytes, mode, inode, mtime_ns) of every file are unchanged. Repeatable: "
    "each op's canonical result equals the result of the SAME op executed alone in a fresh (cold-zygote) process "
    "with a different PYTHONHASHSEED, equals every other execution of it in the history, and every file's violations "
    "inside a multi-file lint (API records, CLI json/yaml) equal those of that file linted ALONE in a fresh process. evaluations = ops "
    "executed in histories. non-trivial iff the op was preceded in its node by >= 1 op touching a different "
    "file set / entry point; distinct = distinct (world digest, op digest, history-prefix digest)."
)
TIERS = {
    "quick": {"runs": 120, "budget_s": 90, "min_runs": 4, "run_timeout_s": 300},
    "thorough": {"runs": 6000, "budget_s": 800, "min_runs": 40, "run_timeout_s": 600},
}
COMPONENTS_REAL = [
    "sqlfluff Linter (lint_paths, lint_string), cli lint/parse/render, simple API, lexer BlockTracker class state, config caches, rule packs, dialect modules",
    "fresh reference processes: zygote forks that have imported sqlfluff and nothing else",
]
COMPONENTS_STUBBED = ["disk seam (journal)", "directory listing order", "module time -> virtual clock (clock jumps)", "multiprocessing.Pool -> SimPool", "uuid4/temp names seeded"]
ASSUMPTIONS = ["library_path is never configured (CPython would write __pycache__ next to user modules)", "a zygote fork equals a fresh interpreter that imported sqlfluff"]
WARM = "rules,ansi,postgres,bigquery,snowflake"
FORMATS = ["json", "json", "yaml", "human", "github-annotation-native", "none"]


def gen_history(rng: Rng, world: dict) -> list[dict]:
    files = sql_files(world)
    cwd = world["cwd"]
    rels = [os.path.relpath(f, cwd) for f in files]
    ops: list[dict] = []
    n = rng.randint(3, 6)
    distinct: list[dict] = []
    whole_at = rng.randrange(n) if rng.chance(0.6) else -1
    nested_cfgs = sorted("proj/%s/.sqlfluff" % d for d in world["cfg"]["nested"])
    poison_at = rng.randrange(n) if nested_cfgs and rng.chance(0.3) else -1
    for step in range(n):
        if step == poison_at:
            # a lint during which ONE nested config file cannot be read, once (transient EIO / EACCES /
            # ENOENT on its n-th open). Its own outcome is not judged; whatever it leaves behind in the
            # process is: every later op must still equal its fresh-process twin
            ops.append({"op": "poison", "paths": ["."], "unreadable": rng.choice(nested_cfgs), "nth": rng.choice([0, 1, 1, 2]),
                        "errno": rng.choice(["EIO", "EACCES", "ENOENT"]), "shared_linter": rng.chance(0.5)})
        if step == whole_at:
            # the commonest real history: every file of the project through ONE process and ONE Linter
            if rng.chance(0.6):
                op = {"op": "lint", "paths": ["."], "processes": 1, "shared_linter": rng.chance(0.5)}
            else:
                op = {"op": "cli_lint", "paths": ["."], "format": rng.choice(["json", "yaml"]), "processes": 1}
            ops.append(op)
            distinct.append(op)
            continue
        kind = rng.weighted([("lint", 5), ("cli_lint", 3), ("api_lint", 2), ("cli_parse", 1), ("cli_render", 1),
                             ("repeat", 3), ("listing", 1), ("clock", 1), ("evict", 1), ("restart", 1)])
        if kind == "repeat" and distinct:
            ops.append(dict(rng.choice(distinct)))
            continue
        if kind == "lint":
            subset = rng.sample(rels, rng.randint(1, min(4, len(rels)))) if rng.chance(0.7) else ["."]
            op = {"op": "lint", "paths": sorted(subset), "processes": rng.choice([1, 1, 2, 3]), "shared_linter": rng.chance(0.5)}
        elif kind == "cli_lint":
            subset = rng.sample(rels, rng.randint(1, min(3, len(rels)))) if rng.chance(0.6) else ["."]
            op = {"op": "cli_lint", "paths": sorted(subset), "format": rng.choice(FORMATS), "processes": rng.choice([1, 1, 2])}
        elif kind == "api_lint":
            op = {"op": "api_lint", "file": rng.choice(files)}
        elif kind == "cli_parse":
            op = {"op": "cli_parse", "path": rng.choice(rels)}
        elif kind == "cli_render":
            op = {"op": "cli_render", "path": rng.choice(rels)}
        elif kind == "listing":
            op = {"op": "listing", "mode": rng.choice(["shuffle", "reverse", "sorted"])}
        elif kind == "clock":
            op = {"op": "clock", "by": rng.choice([3600.0, 86400.0, 1e7])}
        elif kind == "repeat":
            continue
        else:
            op = {"op": kind}
        ops.append(op)
        if op["op"] in ("lint", "cli_lint", "api_lint", "cli_parse", "cli_render"):
            distinct.append(op)
    return ops


def execute(node: Any, op: dict, world: dict) -> dict:
    k = op["op"]
    if k == "lint":
        return node.call("lint_paths", paths=op["paths"], processes=op["processes"],
                         linter_handle="linter:shared" if op.get("shared_linter") else None)
    if k == "cli_lint":
        return node.call("cli", argv=["lint"] + op["paths"] + ["--format", op["format"], "-p", str(op["processes"])])
    if k == "api_lint":
        text = unb64(world["files"][op["file"]]["b64"]).decode("utf-8")
        return node.call("api_lint", sql=text, kwargs={"config_path": ".sqlfluff"})
    if k == "cli_parse":
        return node.call("cli", argv=["parse", op["path"], "--format", "json"])
    if k == "cli_render":
        return node.call("cli", argv=["render", op["path"]])
    raise ValueError(k)


def canon(op: dict, out: dict) -> Any:
    k = op["op"]
    c: dict[str, Any] = {}
    if "exception" in out:
        c["exception"] = out["exception"][:2]
    if k == "lint":
        c["records"] = [(r["filepath"], r["violations"]) for r in out.get("records", [])]
        # reported order per file (as_records re-sorts; get_violations() callers and the human format do not)
        c["order"] = sorted((f["path"], f.get("reported_order")) for f in out.get("mon", {}).get("files", []))
        c["files_skipped"] = out.get("files_skipped")
        c["stats"] = out.get("stats")
    elif k == "api_lint":
        c["violations"] = out.get("violations")
    else:
        c["exit_code"] = out.get("exit_code")
        so = out.get("stdout") or ""
        if k == "cli_lint" and op["format"] == "json":
            try:
                recs = json.loads(so)
                for r in recs:
                    r.pop("timings", None)
                so = recs
            except Exception:
                pass
        elif k == "cli_lint" and op["format"] == "yaml":
            try:
                import yaml

                recs = yaml.safe_load(so)
                for r in recs or []:
                    if isinstance(r, dict):
                        r.pop("timings", None)
                so = recs
            except Exception:
                pass
        if isinstance(so, str):
            # log lines (warnings) share stdout with results in human-readable
            # modes; the statement is about violations / rendered output, and the
            # CLI's log filter is known to re-decorate records per accumulated
            # handler, so log lines are not part of the canonical result
            so = _strip_logs(so)
        if k == "cli_lint" and op["processes"] > 1 and isinstance(so, str):
            # under -p N the per-file blocks are printed in result-arrival order:
            # compare them as a multiset (the statement speaks about violations)
            so = _blocks(so, op["format"])
        c["stdout"] = so
    return c


_LOG = __import__("re").compile(r"^(\x1b\[[0-9;]*m)*\s*(WARNING|ERROR|INFO|DEBUG|CRITICAL)\s")


def _strip_logs(text: str) -> str:
    return "\n".join(ln.rstrip() for ln in text.splitlines() if not _LOG.match(ln))


def _blocks(text: str, fmt: str) -> list:
    blocks: list[list[str]] = [[]]
    for ln in text.splitlines():
        if fmt == "human":
            cont = ln.startswith("L:") or ln.startswith(" ")
            if not cont:
                blocks.append([])
            blocks[-1].append(ln)
        else:
            if ln.startswith("::group::"):
                blocks.append([])
            blocks[-1].append(ln)
            if ln.startswith("::endgroup::"):
                blocks.append([])
    return sorted("\n".join(b) for b in blocks if b)


def run_one(ctx: Any, seed: int, tier: str, replay: Optional[dict] = None) -> dict:
    rng = Rng(seed)
    if replay:
        world = replay["world"]
        history = replay["history"]
        hs_h, hs_f = replay["hashseeds"]
        warm = replay.get("warm", WARM)
        fresh_cold = replay.get("fresh_cold", True)
    else:
        world = gen_fix_world(rng.fork("world"), {"kinds": KINDS + ["cte_multi", "cte_multi", "cte_multi", "cte_multi", "clean", "rulecase", "rulecase", "rulecase", "tmpl_undef", "tmpl_undef", "jinja_fixable", "jinja_fixable", "jinja_fixable"], "min_files": 3, "max_files": 7, "bait": 0.3, "jinja_loader": 0.5, "nested_templater": 0.6, "templater": ["jinja", "jinja", "jinja", "raw", "placeholder", "placeholder"],
                                                   "size_limits": rng.fork("f").chance(0.2)})
        history = gen_history(rng.fork("history"), world)
        pool = ctx.hashseeds(6)
        hr = rng.fork("hashseed")
        hs_h = hr.choice(pool)
        hs_f = hr.choice([h for h in pool if h != hs_h])
        warm = WARM if hr.chance(0.7) else ""
        fresh_cold = hr.chance(0.35)
    cl = ctx.cluster
    zh = cl.zygote(hs_h, warm)
    # fresh side: a new process per op; in a third of the runs a COLD one (nothing but `import sqlfluff`
    # done: dialect/rule modules get imported by the op itself), otherwise imports pre-done (3x cheaper)
    zf = cl.zygote(hs_f, "" if fresh_cold else WARM)
    za = cl.zygote(hs_f, WARM)  # single-file "alone" lints: fresh fork, imports pre-done
    root = cl.new_root("C32-%d" % seed)
    initial = world_tree(world)
    wdig = sha(json.dumps(world["files"], sort_keys=True))[:10]
    cwd = world["cwd"]
    log: list = []
    violations: list[dict] = []
    probes: Counter = Counter()
    faults: Counter = Counter()
    nontrivial: list = []
    samples: list = []
    evaluations = 0
    sim_time = 0
    events: list = []
    gen = 0
    node = None
    fresh_cache: dict[str, Any] = {}
    hist_results: dict[str, list] = {}
    prefix: list = []
    prev_keys: set = set()

    def add(oracle: str, sig: str, msg: str) -> None:
        violations.append({"oracle": oracle, "signature": sig, "message": msg})

    def first_diff(a: Any, b: Any) -> str:
        sa, sb = json.dumps(a, sort_keys=True, default=str), json.dumps(b, sort_keys=True, default=str)
        k = 0
        while k < min(len(sa), len(sb)) and sa[k] == sb[k]:
            k += 1
        return "...%s | vs | ...%s" % (sa[max(0, k - 150) : k + 150], sb[max(0, k - 150) : k + 150])

    def lt07_only(a: Any, b: Any) -> bool:
        """Is the difference confined to which LT07 violation was reported (F5)?"""
        def strip(x: Any) -> Any:
            if isinstance(x, dict):
                if x.get("code") == "LT07":
                    return None
                return {k: strip(v) for k, v in x.items() if k not in ("stats",)}
            if isinstance(x, (list, tuple)):
                return [y for y in (strip(v) for v in x) if y is not None]
            if isinstance(x, str):
                return "\n".join(ln for ln in x.splitlines() if "LT07" not in ln and "layout.cte_bracket" not in ln and "L018" not in ln)
            return x
        return strip(a) == strip(b) and "LT07" in json.dumps([a, b], default=str)

    try:
        seams.restore_tree(root, initial)
        meta0 = seams.snapshot_meta(root)
        node = zh.node({"name": "h0", "root": root, "cwd": cwd, "seed": seed, "knobs": {"journal_reads": False, "listing": "sorted"}}, sink=events)
        for opi, op in enumerate(history):
            del events[:]
            k = op["op"]
            if k == "restart":
                node.close()
                gen += 1
                node = zh.node({"name": "h%d" % gen, "root": root, "cwd": cwd, "seed": seed + gen, "knobs": {"journal_reads": False, "listing": "sorted"}}, sink=events)
                prev_keys = set()
                faults["restart"] += 1
                prefix.append("restart")
                continue
            if k == "listing":
                node.call("env", kind="listing", mode=op["mode"])
                faults["listing"] += 1
                prefix.append("listing:" + op["mode"])
                continue
            if k == "clock":
                node.call("env", kind="clock", by=op["by"])
                faults["clock"] += 1
                sim_time += op["by"]
                prefix.append("clock")
                continue
            if k == "evict":
                node.call("env", kind="evict")
                faults["evict"] += 1
                prefix.append("evict")
                continue
            if k == "poison":
                pr = node.call("lint_paths", paths=op["paths"], processes=1, linter_handle="linter:shared" if op.get("shared_linter") else None,
                               plan=[{"cls": "open_r", "path": op["unreadable"], "nth": op["nth"], "kind": "err", "errno": op["errno"]}])
                if node.fired.get("err"):
                    faults["transient_config_read_error"] += 1
                    probes["poison_lint_" + ("raised" if "exception" in pr else "completed")] += 1
                muts = [e for e in events if e and e[0] == "disk" and e[3] in MUTATING]
                if muts:
                    add("read-only-journal", "C32:mutating-op-during-lint", "op #%d (lint with an unreadable config file) performed mutating disk ops: %s" % (opi, [[m[3], m[4]] for m in muts[:5]]))
                prefix.append("poison")
                continue
            opkey = json.dumps(op, sort_keys=True)
            out = execute(node, op, world)
            evaluations += 1
            c = canon(op, out)
            # ---- read-only ----
            muts = [e for e in events if e and e[0] == "disk" and e[3] in MUTATING]
            meta1 = seams.snapshot_meta(root)
            if muts:
                add("read-only-journal", "C32:mutating-op-during-%s" % k, "op #%d %s performed mutating disk ops: %s" % (opi, op, [[m[3], m[4]] for m in muts[:5]]))
            if meta1 != meta0:
                changed = sorted(set(meta0.items()) ^ set(meta1.items()))[:4]
                add("read-only-snapshot", "C32:files-changed-during-%s" % k, "op #%d %s changed files on disk: %s" % (opi, op, changed))
                meta0 = meta1
            # ---- repeatable: vs fresh process ----
            if opkey not in fresh_cache:
                fn = zf.node({"name": "f%d" % opi, "root": root, "cwd": cwd, "seed": seed + 1000 + opi, "knobs": {"journal_reads": False, "listing": "sorted"}})
                try:
                    fout = execute(fn, op, world)
                finally:
                    fn.close()
                fresh_cache[opkey] = canon(op, fout)
                probes["fresh_process_executions"] += 1
            fc = fresh_cache[opkey]
            if c != fc:
                sig = "C32:history-vs-fresh-%s" % k
                if lt07_only(c, fc):
                    sig = "F5:LT07-reports-hash-order-dependent-cte-bracket"
                add("repeatable-fresh", sig, "op #%d %s after history %s differs from the same op in a fresh process (hash seeds %d vs %d): %s" % (
                    opi, op, prefix[-6:], hs_h, hs_f, first_diff(c, fc)))
            # ---- repeatable: each file of a multi-file lint vs the same file linted alone, fresh ----
            multi = None
            if k == "lint" and "records" in out:
                multi = out["records"]
            elif k == "cli_lint" and op["format"] in ("json", "yaml") and isinstance(c.get("stdout"), list):
                multi = [r_ for r_ in c["stdout"] if isinstance(r_, dict) and "filepath" in r_ and "violations" in r_]
            if multi is not None and len(multi) > 1:
                recs = sorted(multi, key=lambda r_: r_["filepath"])
                start = (seed + opi) % len(recs)
                todo = [recs[(start + j) % len(recs)] for j in range(len(recs))]
                fresh_budget = 2  # new single-file processes per op (results are cached per file for the run)
                for pickf in todo:
                    akey = "alone:" + pickf["filepath"]
                    if akey not in fresh_cache:
                        if fresh_budget <= 0:
                            continue
                        fresh_budget -= 1
                        fn = za.node({"name": "a%d" % opi, "root": root, "cwd": cwd, "seed": seed + 2000 + opi, "knobs": {"journal_reads": False, "listing": "sorted"}})
                        try:
                            ao = fn.call("lint_paths", paths=[pickf["filepath"]], processes=1)
                        finally:
                            fn.close()
                        # (through JSON so API records and CLI json/yaml output compare like for like)
                        fresh_cache[akey] = json.loads(json.dumps([r_["violations"] for r_ in ao.get("records", []) if r_["filepath"] == pickf["filepath"]]))
                        probes["fresh_single_file_lints"] += 1
                    alone = fresh_cache[akey]
                    if not alone:
                        probes["alone_record_missing"] += 1
                    if alone and alone[0] != json.loads(json.dumps(pickf["violations"])):
                        add("repeatable-alone", "C32:file-among-others-vs-alone", "op #%d %s: violations of %s inside this multi-file lint differ from the same file linted alone in a fresh process: %s" % (
                            opi, op, pickf["filepath"], first_diff(pickf["violations"], alone[0])))
                    probes["file_among_others_vs_alone_compared"] += 1
            # ---- repeatable: vs earlier executions in the history ----
            for (pi, pc) in hist_results.get(opkey, []):
                if pc != c:
                    add("repeatable-history", "C32:repeat-in-same-history-%s" % k, "op #%d %s differs from its earlier execution #%d in the same history: %s" % (opi, op, pi, first_diff(pc, c)))
                    break
                probes["repeats_compared"] += 1
            hist_results.setdefault(opkey, []).append((opi, c))
            touch = (k, json.dumps(op.get("paths") or op.get("file") or op.get("path")))
            if prev_keys and (prev_keys - {touch}):
                nontrivial.append("%s|%s|%s" % (wdig, sha(opkey)[:10], sha(repr(prefix))[:10]))
            prev_keys.add(touch)
            prefix.append(opkey)
            probes["op_" + k] += 1
            log.append([opi, op, sha(json.dumps(c, sort_keys=True, default=str))[:16]])
        samples.append({"files": {k2: v.get("kind") for k2, v in world["meta"].items()}, "root_config": world["cfg"]["root_core"], "nested": world["cfg"]["nested"],
                        "history": history, "hashseeds": [hs_h, hs_f]})
        for v in violations:
            v["replay"] = {"world": world, "history": history, "hashseeds": [hs_h, hs_f], "warm": warm, "fresh_cold": fresh_cold, "tier": tier}
    finally:
        if node is not None:
            node.close()
        cl.drop_root(root)
    uniq: dict = {}
    for v in violations:
        uniq.setdefault((v["oracle"], v["signature"]), v)
    return {
        "digest": digest(log, root),
        "evaluations": evaluations,
        "nontrivial": nontrivial,
        "violations": list(uniq.values()),
        "faults": dict(faults),
        "probes": dict(probes),
        "states": [],
        "schedules": [],
        "sim_time": sim_time,
        "samples": samples,
    }


def shrink_candidates(rp: dict):
    import copy

    from vsim.shrink import drop_world_files, list_candidates

    for h in list_candidates(rp["history"]):
        if h:
            r = copy.deepcopy(rp)
            r["history"] = h
            yield "drop history ops", r

    def fix(r: dict, removed: set) -> bool:
        cwd = r["world"]["cwd"]
        gone = {os.path.relpath(x, cwd) for x in removed}
        hist = []
        for op in r["history"]:
            op = dict(op)
            if "paths" in op and op["paths"] != ["."]:
                op["paths"] = [p_ for p_ in op["paths"] if p_ not in gone]
                if not op["paths"]:
                    continue
            if op.get("path") in gone or op.get("file") in removed:
                continue
            hist.append(op)
        r["history"] = hist
        return bool(hist) and len(r["world"]["meta"]) >= 1

    yield from drop_world_files(rp, fixups=fix)
