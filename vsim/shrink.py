"""Greedy delta-debugging over replay files (ddmin-lite).

A check exposes `shrink_candidates(replay) -> iterable of (label, candidate_replay)`.
A candidate is kept only if the SAME (oracle, signature) violation still fires.
"""

from __future__ import annotations

import copy
import time
from typing import Any, Callable, Iterable, Iterator


def list_candidates(lst: list) -> Iterator[list]:
    """Halves first, then single removals (classic ddmin order)."""
    n = len(lst)
    if n >= 4:
        yield lst[n // 2 :]
        yield lst[: n // 2]
    if n >= 8:
        q = n // 4
        for i in range(4):
            yield lst[: i * q] + lst[(i + 1) * q :]
    if n > 1 or n == 1:
        for i in range(n):
            yield lst[:i] + lst[i + 1 :]


def tape_candidates(tape: list) -> Iterator[list]:
    n = len(tape)
    if n and any(tape):
        yield [0] * n
        yield tape[: n // 2] + [0] * (n - n // 2)
        yield [0] * (n // 2) + tape[n // 2 :]
    if n > 2:
        yield tape[: n // 2]


def drop_world_files(replay: dict, world_key: str = "world", fixups: Callable[[dict, set], bool] = lambda rp, removed: True) -> Iterator[tuple[str, dict]]:
    world = replay[world_key]
    sqls = sorted(world.get("meta", {}))
    for keep in list_candidates(sqls):
        if not keep:
            continue
        removed = set(sqls) - set(keep)
        rp = copy.deepcopy(replay)
        w = rp[world_key]
        for r in removed:
            w["files"].pop(r, None)
            w["meta"].pop(r, None)
        if fixups(rp, removed):
            yield "drop %d file(s)" % len(removed), rp


def minimise(mod: Any, ctx: Any, seed: int, tier: str, v: dict, budget_s: float = 60.0) -> dict:
    if not hasattr(mod, "shrink_candidates"):
        return v
    t0 = time.time()
    target = (v.get("oracle"), v.get("signature"))
    best = v
    steps = 0
    tried = 0

    def attempt(rp: dict):
        r = mod.run_one(ctx, seed, tier, replay=rp)
        for v2 in r.get("violations", []):
            if (v2.get("oracle"), v2.get("signature")) == target:
                return v2, r.get("digest")
        return None, None

    improved = True
    while improved and time.time() - t0 < budget_s:
        improved = False
        for label, cand in mod.shrink_candidates(copy.deepcopy(best["replay"])):
            if time.time() - t0 >= budget_s:
                break
            tried += 1
            try:
                v2, dg = attempt(cand)
            except Exception:
                continue
            if v2 is not None:
                best = v2
                steps += 1
                improved = True
                break
    best = dict(best)
    rp = dict(best["replay"])
    rp["minimisation"] = {"steps_kept": steps, "candidates_tried": tried, "wall_s": round(time.time() - t0, 1)}
    # fix the digest the replay must reproduce
    try:
        r = mod.run_one(ctx, seed, tier, replay=rp)
        rp["expected_digest"] = r.get("digest")
    except Exception:
        pass
    best["replay"] = rp
    return best
