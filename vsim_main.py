"""Entry point: python -B vsim_main.py <Cxx> [--tier quick|thorough] [--replay file]"""
import os
import sys

sys.path.insert(0, os.path.dirname(os.path.abspath(__file__)))
sys.dont_write_bytecode = True

from vsim.engine import main  # noqa: E402

if __name__ == "__main__":
    sys.exit(main())
