"""Determinism sweep: every check, K seeds, each seed run in two fresh harness
interpreters with different PYTHONHASHSEED for the harness itself; digests must agree.

usage: python tools/determinism_sweep.py [K] [checks...]
"""
import os
import subprocess
import sys

VERIF = os.path.dirname(os.path.dirname(os.path.abspath(__file__)))
sys.path.insert(0, VERIF)
from vsim.engine import seeds_for  # noqa: E402

K = int(sys.argv[1]) if len(sys.argv) > 1 else 8
checks = sys.argv[2:] or ["C06", "C11", "C18", "C24", "C25", "C26", "C27", "C32", "C34"]
bad = 0
for c in checks:
    seeds = seeds_for(c, 4242, K)
    outs = []
    for hs in ("11", "977"):
        env = dict(os.environ, PYTHONHASHSEED=hs, PYTHONPATH=VERIF, VSIM_WORKERS="1")
        r = subprocess.run([sys.executable, "-B", os.path.join(VERIF, "vsim_main.py"), c, "--digest-only", "--base-seed", "4242",
                            "--seeds", ",".join(map(str, seeds))], env=env, capture_output=True, text=True, cwd=VERIF)
        d = dict(ln.split()[1:3] for ln in r.stdout.splitlines() if ln.startswith("DIGEST"))
        outs.append(d)
        if len(d) != K:
            print(c, "harness hash seed", hs, "only", len(d), "of", K, "digests;", r.stderr[-300:])
    mism = [s for s in map(str, seeds) if outs[0].get(s) != outs[1].get(s)]
    bad += len(mism)
    print("%s: %d seeds x 2 fresh interpreters: %s" % (c, K, "all digests equal" if not mism else "MISMATCH %s" % mism), flush=True)
sys.exit(1 if bad else 0)
