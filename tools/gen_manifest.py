"""Regenerate MANIFEST.json from the table below (only built checks are claimed)."""

import json
import os
import sys

VERIF = os.path.dirname(os.path.dirname(os.path.abspath(__file__)))
sys.path.insert(0, VERIF)

BASELINE_CMD = (
    "cd /repo && env -u SQLFLUFF_VERIF_SIM /venv/bin/python -m pytest -ra -q -p no:cacheprovider "
    "--timeout=900 --continue-on-collection-errors --junitxml=/tmp/vsim-baseline.junit.xml"
)

NA = {
    "C01": "lexing is a pure function of (text, dialect, templated file): no schedule, fault, clock or history in the statement; the class-level BlockTracker state in its anchors is a history effect and is exercised under C06/C32",
    "C02": "pure function token list -> tree; nothing for a simulator to schedule or fault",
    "C03": "structural invariant of one parse tree; pure function of the input",
    "C04": "quantified over inputs x configurations only ('never raises on any input' is input search); the runner exception funnel is exercised as the task_exc fault inside C24 where it has an oracle",
    "C05": "per-rule robustness on arbitrary trees; pure function of (tree, config)",
    "C07": "source-map consistency of one templater call: string + context -> string + slices; pure",
    "C08": "rendering fidelity of one Jinja render; macro/library loading reads files but the statement does not speak about it; pure",
    "C09": "pure string -> string for the python/placeholder templaters",
    "C10": "decided entirely by in-memory filters on fixes and patches; pure",
    "C12": "re-lexing the fixed text is a pure function of (text, config)",
    "C13": "parsability after fix: pure function of (text, config)",
    "C14": "layout-only changes: pure function of (text, config)",
    "C15": "case-only changes: pure function of (text, config)",
    "C16": "query-result preservation needs differential execution in a database, which is not a simulation; pure in (text, config)",
    "C17": "idempotence f(f(x)) = f(x): the bounded fix loop has no clock, schedule or fault in it",
    "C19": "path, stdin and API are three deterministic functions of the same (sql, config); a differential test, no schedule/fault/history dimension to simulate",
    "C20": "noqa semantics are a pure function of (text, config); the one order-dependent ingredient (sticky 'used' flag) is covered where it can matter, in C24 (serial vs parallel) and C32 (repeat lint)",
    "C21": "rule selection is a pure function of config",
    "C22": "exit code is a pure function of the violation set, config and skip count; the only scheduled ingredient (skip count under parallelism) is decided in C34",
    "C23": "position arithmetic; pure",
    "C28": "serialiser is a pure function of a tree",
    "C29": "static completeness of dialect definitions; nothing dynamic to simulate",
    "C30": "pure function on patch lists; the quantifier asks for exhaustive small scope, i.e. model checking, not seeded simulation",
    "C31": "pure arithmetic on (string, offset); the quantifier asks for a proof",
    "C33": "ordering/dedup of one violation list; pure function",
}

CHECKS = {
    "C26": {
        "level": "fault_enumeration",
        "text": "For each seeded workload (files x encoding x mode x suffix x buffer sizes) every disk operation of the real write path is hit with every applicable fault (errno failures, lost acks, short writes, EINTR, kill before/inside, power loss with every legal post-crash disk state under an ordered-metadata/fsync durability model); 2-fault sequences and multi-file lint_paths/CLI runs (serial + SimPool) are sampled. Exhaustive per workload for single faults, seeded search across workloads: right for a property quantified over crash points and fault sequences.",
        "design_ref": "DESIGN.md §4 C26, §3.4",
        "note": "Trusts: CPython io/tempfile/shutil; durability model (metadata ordered, data durable only after fsync); tmpfs POSIX behaviour; zygote fork == fresh interpreter.",
        "technique": "deterministic simulation: simulated disk with per-op fault/crash enumeration + power-loss durability model, seeded workloads",
    },
    "C24": {
        "level": "exploration",
        "text": "Seeded search over worker assignment, completion order, producer run-ahead, delivery order, stragglers (one task outlasting all others), process counts, path-argument order and interpreter hash seeds with sqlfluff's real ParallelRunner running on a discrete-event SimPool (real pickling, in-process and forked fresh-process workers); oracle = serial fresh-process run of the same world (violations, fixed bytes, modes, skip count, exit code). Sampling, not proof.",
        "design_ref": "DESIGN.md §4 C24, §3.5",
        "note": "Trusts: SimPool models multiprocessing.Pool.imap_unordered's observable contract (in the thorough tier 1 run in 8 is repeated through the real multiprocessing.Pool as a fidelity cross-check that is outside digests and verdicts; a disagreement exits 2); pickle; zygote fork == fresh interpreter.",
        "technique": "deterministic simulation: seeded discrete-event scheduler replacing the multiprocessing pool, serial run as reference model",
    },
    "C18": {
        "level": "exploration",
        "text": "Disk-effect invariant over the simulated-disk journal in multi-file fix/format runs (API, CLI paths, CLI stdin) under every sampled SimPool schedule, runaway_limit knob and write faults on neighbouring files: a file whose own (unfiltered) result holds a templating/parse error, or that hit the fix loop limit, has no mutating op and unchanged bytes.",
        "design_ref": "DESIGN.md §4 C18",
        "note": "Ground truth for 'has TMP/PRS error' is sqlfluff's own unfiltered result object in the same run; the decision itself is input-determined and is not what is searched.",
        "technique": "deterministic simulation: disk-journal invariant under seeded schedules and neighbour write faults",
    },
    "C34": {
        "level": "exploration",
        "text": "Files straddling byte/char limits (root and nested limits) linted/fixed serially and under SimPool schedules (in-process and forked workers, skip crossing the pickle boundary), with transient (n-th stat, ESTALE) and persistent (EIO) faults of the size probe; monitors on lexer/parser + disk journal decide 'never parsed, never written'; skip count and exit code compared with a reference model in every schedule.",
        "design_ref": "DESIGN.md §4 C34",
        "note": "Trusts the size model (getsize > byte limit, len(text) > char limit) written from the statement.",
        "technique": "deterministic simulation: seeded scheduler + file-seam monitors against a skip reference model",
    },
    "C32": {
        "level": "exploration",
        "text": "Histories of lint/parse/render operations in long-lived nodes (shared Linter, config caches, templater, rule packs) versus the same operation alone in a fresh process with a different hash seed, versus its other executions in the history, and - file by file - versus each file of a multi-file lint linted alone in a fresh process; read-only decided from the simulated-disk journal and a before/after snapshot (bytes, mode, inode, mtime).",
        "design_ref": "DESIGN.md §4 C32",
        "note": "Trusts zygote fork == fresh interpreter; library_path excluded (CPython writes __pycache__).",
        "technique": "deterministic simulation: process-history machine with restart/evict/chdir/clock events, fresh-process reference, disk-journal read-only monitor",
    },
    "C27": {
        "level": "exploration",
        "text": "Config hierarchies generated from a structured description; a reference merge written from the statement decides each probed key; observations are taken inside histories (shared caches, shared Linter, evictions, restarts, parallel workers) and must equal the model's value for the file alone; a behavioural cross-check (violations inside the history == violations of the same file in a fresh process against one flat config holding the model's values) closes the loop from config object to behaviour.",
        "design_ref": "DESIGN.md §4 C27",
        "note": "No config file above the cwd (statement and code agree there); pathspec/configparser/tomllib trusted.",
        "technique": "deterministic simulation: history machine over process-level config caches against a reference merge model",
    },
    "C25": {
        "level": "exploration",
        "text": "Random small trees with ignore files at every level; discovery run under seeded listing-order permutations, stale/fresh import cwd, cache histories and path spellings; oracle = reference ignore model + metamorphic equality across spellings and listing orders.",
        "design_ref": "DESIGN.md §4 C25",
        "note": "pathspec pattern matching trusted; negation patterns excluded.",
        "technique": "deterministic simulation: seeded directory-listing order + process-history (cwd/caches) against a reference ignore model",
    },
    "C11": {
        "level": "exploration",
        "text": "Stored-byte corruption (bytes undecodable in the file's encoding) x encodings/BOMs/line endings/exotic line-separator characters pushed through the real read->fix->write path (API and CLI, serial and SimPool); the bytes of generated comments and string literals (text no rule may rewrite) must survive; files without applicable fixes must have no mutating op in the disk journal.",
        "design_ref": "DESIGN.md §4 C11",
        "note": "sqlfluff's own source patch for an untemplated file is the whole file, so 'outside the patches' is decided on protected tokens (comment text, string-literal content) instead of patch ranges.",
        "technique": "deterministic simulation: stored-byte corruption faults at the file seam + disk-journal 'not rewritten' monitor",
    },
    "C06": {
        "level": "exploration",
        "text": "Histories of parses in one long-lived process (other dialects, lint+fix runs, aborted parses followed by their near twin) x buggified parse cache / option pruning (fast path skipped on a PRNG-chosen subset of calls) x hash seeds, compared with a fresh-process default parse and an optimisation-free parse; plus a file-uniform sweep of dialect fixtures parsed with and without both optimisations.",
        "design_ref": "DESIGN.md §4 C06",
        "note": "Buggify wrappers replace module/class attributes looked up at call time: 'cache off' = every lookup misses, 'pruning off' = every option is tried (the two optimisations' stated contracts).",
        "technique": "deterministic simulation: buggify of parser fast paths + process-history vs fresh-process reference",
    },
}


def main() -> None:
    built = []
    for cid in sorted(CHECKS):
        if os.path.exists(os.path.join(VERIF, "vsim", "checks", cid.lower() + ".py")):
            built.append(cid)
    checks = []
    for cid in built:
        c = CHECKS[cid]
        checks.append(
            {
                "property_id": cid,
                "quick_cmd": "./check %s --tier quick" % cid,
                "thorough_cmd": "./check %s --tier thorough" % cid,
                "evidence_file": "evidence/%s.json" % cid,
                "replay_cmd_template": "./check %s --replay {path}" % cid,
                "engine": "vsim",
                "level_claimed": {"category": c["level"], "text": c["text"], "design_ref": c["design_ref"]},
                "level_note": c["note"],
                "technique": c["technique"],
            }
        )
    na = [{"property_id": k, "reason": v} for k, v in sorted(NA.items())]
    for cid in sorted(CHECKS):
        if cid not in built:
            na.append({"property_id": cid, "reason": "planned simulation target (see DESIGN.md §4) but its check is not built yet, so it is not claimed"})
    hooks_path = os.path.join(VERIF, "hooks.json")
    hooks = {"source_commits": []}
    if os.path.exists(hooks_path):
        hooks = json.load(open(hooks_path))
    m = {
        "version": 1,
        "setup_cmd": "/venv/bin/python -B vsim/setup_check.py",
        "hooks": {
            "guard": "SQLFLUFF_VERIF_SIM",
            "enable": "none needed: every seam is an attribute sqlfluff/stdlib looks up at call time and is monkeypatched inside the simulated node processes (SQLFLUFF_VERIF_SIM=1 is set in those processes only, nothing in /repo reads it)",
            "baseline_off_cmd": BASELINE_CMD,
            "source_commits": hooks.get("source_commits", []),
            "add_only": True,
        },
        "engines": [
            {
                "name": "vsim",
                "path": "vsim/",
                "serves_properties": built,
                "kind_free_text": "deterministic simulator: seeded choice-tape scheduler, zygote-forked node processes with drawn PYTHONHASHSEED, journalled fault-injectable disk seam with power-loss shadow model, discrete-event SimPool replacing multiprocessing.Pool, virtual clock; replay files carry world + ops + fault plan + choice tape",
            }
        ],
        "checks": checks,
        "not_applicable": sorted(na, key=lambda x: x["property_id"]),
        "notes": "All checks run sqlfluff from /repo/src as it is on disk (PYTHONPATH), nothing is built or cached. Exit 0 held / only known findings, 1 VIOLATION, 2 harness error. Known findings: known_findings.json.",
    }
    with open(os.path.join(VERIF, "MANIFEST.json"), "w") as f:
        json.dump(m, f, indent=1)
    print("claimed:", built)


if __name__ == "__main__":
    main()
