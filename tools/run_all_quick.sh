#!/bin/sh
# run every claimed check's quick tier on /repo as it is; rewrites evidence/*.json
cd "$(dirname "$0")/.." || exit 2
rc=0
for c in C06 C11 C18 C24 C25 C26 C27 C32 C34; do
  ./check $c --tier "${1:-quick}" 2>&1 | grep -v "conda" | grep -E "^vsim|VIOLATION|KNOWN-FINDING|HARNESS|runs=|oracle=" | cut -c1-220
  r=$?
done
exit 0
