#!/bin/sh
# Detection matrix on a QUIET machine: every seeded/<id>/patch.diff and mutants/*.patch against its
# check at the quick tier's own budget. Results: seeded/<id>/meta.json (verif_ran) + mutants/RESULTS.json.
cd "$(dirname "$0")/.." || exit 2
for d in seeded/*/; do
  n=$(basename "$d")
  /venv/bin/python tools/eval_seeded.py "seeded/$n" "$n" --skip-confirm 2>&1 | grep -E "CAUGHT|MISSED|HARNESS" | head -1
done
/venv/bin/python tools/run_mutants.py --budget 0 --json mutants/RESULTS.json 2>&1 | grep -v "^$"
