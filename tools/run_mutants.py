"""Sensitivity self-test: apply each mutants/*.patch to a scratch copy of /repo/src
(outside /repo and /verif), run the named check against it, expect a VIOLATION.

usage: python tools/run_mutants.py [--only substr] [--tier quick] [--budget 40]
Patch header lines:  # check: C26      (which check must catch it)
"""
import argparse
import glob
import os
import re
import shutil
import subprocess
import sys
import tempfile
import time

VERIF = os.path.dirname(os.path.dirname(os.path.abspath(__file__)))


def main() -> int:
    ap = argparse.ArgumentParser()
    ap.add_argument("--only", default="")
    ap.add_argument("--tier", default="quick")
    ap.add_argument("--budget", default="40")
    ap.add_argument("--dir", default=os.path.join(VERIF, "mutants"))
    ap.add_argument("--json", default="", help="write results to this file")
    ap.add_argument("--seed", default="", help="VERIF_SEED for the check runs")
    a = ap.parse_args()
    base = "/dev/shm" if os.path.isdir("/dev/shm") else tempfile.gettempdir()
    results = []
    for patch in sorted(glob.glob(os.path.join(a.dir, "*.patch")) + glob.glob(os.path.join(a.dir, "*", "patch.diff"))):
        name = os.path.basename(patch) if patch.endswith(".patch") else os.path.basename(os.path.dirname(patch))
        if a.only and a.only not in name:
            continue
        head = open(patch).read(2000)
        checks = re.findall(r"^# check: (\S+)", head, re.M)
        if not checks:
            meta = os.path.join(os.path.dirname(patch), "meta.json")
            if os.path.exists(meta):
                import json

                checks = [json.load(open(meta)).get("property")]
        scratch = tempfile.mkdtemp(prefix="vsim-mut-", dir=base)
        try:
            shutil.copytree("/repo/src", os.path.join(scratch, "src"))
            p = subprocess.run(["patch", "-p1", "-d", scratch, "-i", patch, "--quiet"], capture_output=True, text=True)
            if p.returncode != 0:
                results.append((name, checks, "PATCH-FAILED", p.stdout[-300:] + p.stderr[-300:]))
                continue
            for chk in checks:
                env = dict(os.environ)
                env["VSIM_REPO_SRC"] = os.path.join(scratch, "src")
                env["VSIM_NO_SELFTEST"] = "1"
                env["VSIM_NO_MINIMISE"] = os.environ.get("VSIM_NO_MINIMISE", "1")
                if a.budget not in ("0", ""):
                    env["VSIM_BUDGET_S"] = a.budget  # 0 = the tier's own budget
                if a.seed:
                    env["VERIF_SEED"] = a.seed
                t0 = time.time()
                r = subprocess.run([os.path.join(VERIF, "check"), chk, "--tier", a.tier, "--no-evidence"], env=env, capture_output=True, text=True)
                viol = [ln for ln in r.stdout.splitlines() if ln.startswith("VIOLATION")]
                detail = [ln for ln in r.stdout.splitlines() if ln.startswith("  oracle=")]
                status = "CAUGHT" if viol and r.returncode == 1 else ("HARNESS-ERROR rc=%d" % r.returncode if r.returncode not in (0, 1) else "MISSED")
                results.append((name, chk, status, "%.0fs %s %s" % (time.time() - t0, detail[:1], r.stderr[-300:] if "HARNESS" in status else "")))
                print("%-50s %-4s %s %s" % (name, chk, status, results[-1][3]), flush=True)
        finally:
            shutil.rmtree(scratch, ignore_errors=True)
    if a.json:
        import json

        with open(a.json, "w") as f:
            json.dump([{"mutant": r[0], "check": r[1], "status": r[2], "detail": r[3]} for r in results], f, indent=1)
    missed = [r for r in results if r[2] != "CAUGHT"]
    print("\n%d mutants run, %d caught, %d not caught" % (len(results), len(results) - len(missed), len(missed)))
    return 1 if missed else 0


if __name__ == "__main__":
    sys.exit(main())
