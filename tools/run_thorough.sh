#!/bin/sh
# every claimed check's thorough tier on the unchanged tree (no evidence written): a scale test of the
# thorough commands themselves (no false alarm, no harness error, wall time)
cd "$(dirname "$0")/.." || exit 2
bad=0
for c in ${CHECKS:-C06 C11 C18 C24 C25 C26 C27 C32 C34}; do
  out=$(./check $c --tier thorough --no-evidence 2>&1)
  rc=$?
  echo "$c rc=$rc $(echo "$out" | grep -E '^runs=')"
  echo "$out" | grep -E "KNOWN-FINDING" | cut -c1-160
  if [ $rc -ne 0 ]; then bad=$((bad+1)); echo "$out" | grep -E "VIOLATION|oracle=|HARNESS" | cut -c1-800; fi
done
echo "thorough done: $bad non-zero exits"
[ $bad -eq 0 ]
