"""Confirm an independently authored breakage and run our check(s) against it.

usage: python tools/eval_seeded.py <src dir with patch.diff demo.py meta.json> <name> [--checks C24,C32] [--tests "test/core/linter test/cli"] [--budget 45] [--tier quick]
Creates /verif/seeded/<name>/ (patch.diff, demo.py, meta.json updated with what we ran).
Uses a scratch git worktree of /repo under /dev/shm (removed afterwards).
"""
import argparse
import json
import os
import shutil
import subprocess
import sys
import time

VERIF = os.path.dirname(os.path.dirname(os.path.abspath(__file__)))


def sh(cmd, **kw):
    kw.setdefault("timeout", 1800)
    try:
        return subprocess.run(cmd, shell=isinstance(cmd, str), capture_output=True, text=True, **kw)
    except subprocess.TimeoutExpired as e:
        return subprocess.CompletedProcess(cmd, 124, stdout=str(e.stdout or ""), stderr="TIMEOUT after %ss" % kw["timeout"])


def main() -> int:
    ap = argparse.ArgumentParser()
    ap.add_argument("src")
    ap.add_argument("name")
    ap.add_argument("--checks", default="")
    ap.add_argument("--tests", default="")
    ap.add_argument("--budget", default="0")
    ap.add_argument("--tier", default="quick")
    ap.add_argument("--skip-confirm", action="store_true")
    a = ap.parse_args()
    dst = os.path.join(VERIF, "seeded", a.name)
    os.makedirs(dst, exist_ok=True)
    for f in ("patch.diff", "demo.py", "meta.json"):
        if os.path.abspath(a.src) != os.path.abspath(dst):
            shutil.copy(os.path.join(a.src, f), os.path.join(dst, f))
    meta = json.load(open(os.path.join(dst, "meta.json")))
    checks = [c for c in (a.checks or meta.get("property", "")).split(",") if c]
    wt = "/dev/shm/vsim-seeded-%s-%d" % (a.name, os.getpid())
    ran = meta.setdefault("verif_ran", {})
    try:
        r = sh(["git", "-C", "/repo", "worktree", "add", "--detach", "-q", wt, "HEAD"])
        if r.returncode:
            print("worktree failed", r.stderr)
            return 2
        env = dict(os.environ, PYTHONPATH=os.path.join(wt, "src"), PYTHONDONTWRITEBYTECODE="1")
        if not a.skip_confirm:
            d0 = sh(["/venv/bin/python", "-B", os.path.join(dst, "demo.py")], env=env, cwd="/tmp", timeout=300)
            ran["demo_pristine_rc"] = d0.returncode
        ap_ = sh(["git", "-C", wt, "apply", os.path.join(dst, "patch.diff")])
        if ap_.returncode:
            print("patch does not apply:", ap_.stderr)
            ran["applies"] = False
            return 2
        ran["applies"] = True
        if not a.skip_confirm:
            d1 = sh(["/venv/bin/python", "-B", os.path.join(dst, "demo.py")], env=env, cwd="/tmp", timeout=300)
            ran["demo_patched_rc"] = d1.returncode
            ran["demo_patched_tail"] = (d1.stdout + d1.stderr)[-400:]
            if a.tests:
                t = sh("/venv/bin/python -m pytest -q -p no:cacheprovider -n 6 %s 2>&1 | tail -3" % a.tests, env=env, cwd=wt)
                ran["tests"] = {"cmd": "pytest -n 6 " + a.tests, "tail": t.stdout[-300:]}
        for chk in checks:
            env2 = dict(os.environ, VSIM_REPO_SRC=os.path.join(wt, "src"), VSIM_NO_SELFTEST="1")
            if a.budget not in ("0", ""):
                env2["VSIM_BUDGET_S"] = a.budget  # 0 = the tier's own budget
            t0 = time.time()
            r = sh([os.path.join(VERIF, "check"), chk, "--tier", a.tier, "--no-evidence"], env=env2)
            viol = [ln for ln in r.stdout.splitlines() if ln.startswith("VIOLATION")]
            det = [ln.strip() for ln in r.stdout.splitlines() if ln.startswith("  oracle=")]
            status = "CAUGHT" if viol and r.returncode == 1 else ("MISSED" if r.returncode == 0 else "HARNESS rc=%d" % r.returncode)
            ran["check_" + chk] = {"status": status, "tier": a.tier, "budget_s": a.budget, "wall_s": round(time.time() - t0), "detail": det[:2],
                                   "summary": r.stdout.strip().splitlines()[-1:] , "stderr": r.stderr[-300:] if "HARNESS" in status else ""}
            # keep the minimised replay next to the patch
            for ln in viol[:1]:
                p = ln.split("replay=")[1].strip()
                if os.path.exists(p):
                    shutil.copy(p, os.path.join(dst, "replay-%s.json" % chk))
            print(a.name, chk, status, det[:1], flush=True)
    finally:
        sh(["git", "-C", "/repo", "worktree", "remove", "--force", wt])
        shutil.rmtree(wt, ignore_errors=True)
    json.dump(meta, open(os.path.join(dst, "meta.json"), "w"), indent=1)
    print(json.dumps(ran, indent=1)[:1500])
    return 0


if __name__ == "__main__":
    sys.exit(main())
