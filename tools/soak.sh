#!/bin/sh
# false-alarm soak: every claimed check's quick tier under VERIF_SEED = $1 .. $2 on the unchanged tree.
# usage: tools/soak.sh <first seed> <last seed> [tier]   (never writes evidence)
cd "$(dirname "$0")/.." || exit 2
bad=0
s=$1
while [ "$s" -le "$2" ]; do
  for c in ${CHECKS:-C06 C11 C18 C24 C25 C26 C27 C32 C34}; do
    out=$(VERIF_SEED=$s ./check $c --tier "${3:-quick}" --no-evidence 2>&1)
    rc=$?
    echo "seed=$s $c rc=$rc $(echo "$out" | grep -E '^runs=' | cut -c1-120)"
    if [ $rc -ne 0 ]; then
      bad=$((bad+1))
      echo "$out" | grep -E "VIOLATION|oracle=|HARNESS" | cut -c1-600
    fi
  done
  s=$((s+1))
done
echo "soak done: $bad non-zero exits"
[ $bad -eq 0 ]
