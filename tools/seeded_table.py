"""Print the detection matrix (markdown) from seeded/*/meta.json (what tools/eval_seeded.py recorded)."""
import glob
import json
import os

VERIF = os.path.dirname(os.path.dirname(os.path.abspath(__file__)))
print("| seeded change | what it does (author's title) | needs to manifest | check | result at the quick tier | oracle that fired |")
print("|---|---|---|---|---|---|")
for p in sorted(glob.glob(os.path.join(VERIF, "seeded", "*", "meta.json"))):
    m = json.load(open(p))
    name = os.path.basename(os.path.dirname(p))
    ran = m.get("verif_ran", {})
    for k, v in sorted(ran.items()):
        if not k.startswith("check_"):
            continue
        det = (v.get("detail") or [""])[0]
        orc = det.split("signature=")[0].replace("oracle=", "").strip() if det else ""
        need = str(m.get("needs_to_manifest", "")).replace("\n", " ").replace("|", "/")
        if len(need) > 230:
            need = need[:227] + "..."
        print("| %s | %s | %s | %s | %s (%ss) | %s |" % (name, str(m.get("title", "")).replace("|", "/")[:160], need, k[6:], v.get("status"), v.get("wall_s"), orc))
