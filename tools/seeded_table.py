"""Print the detection matrix (markdown) from seeded/*/meta.json (what tools/eval_seeded.py recorded)."""
import glob
import json
import os

VERIF = os.path.dirname(os.path.dirname(os.path.abspath(__file__)))
print("| seeded change | what it is (author's title) | check: result at the quick tier (runs) | oracle that fired |")
print("|---|---|---|---|")
tot = caught = 0
for p in sorted(glob.glob(os.path.join(VERIF, "seeded", "*", "meta.json"))):
    m = json.load(open(p))
    name = os.path.basename(os.path.dirname(p))
    ran = m.get("verif_ran", {})
    for k, v in sorted(ran.items()):
        if not k.startswith("check_"):
            continue
        det = (v.get("detail") or [""])[0]
        orc = det.split("signature=")[0].replace("oracle=", "").strip() if det else ""
        summ = (v.get("summary") or [""])[0]
        runs = summ.split(" ")[0].replace("runs=", "") if summ.startswith("runs=") else "?"
        title = str(m.get("title", "")).replace("|", "/").replace("\n", " ")
        if len(title) > 150:
            title = title[:147] + "..."
        tot += 1
        caught += v.get("status") == "CAUGHT"
        print("| %s | %s | %s: %s (%s) | %s |" % (name, title, k[6:], v.get("status"), runs, orc))
print()
print("%d of %d caught at the quick tier." % (caught, tot))
